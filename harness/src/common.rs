//! Types shared by all engines.

use std::collections::BTreeMap;

//------------ Results -------------------------------------------------------

#[derive(Clone, Debug)]
pub struct Violation {
    pub property: &'static str,
    pub class: String,
    pub message: String,
    pub step: usize,
}

#[derive(Clone, Debug, Default)]
pub struct Stats {
    pub faults: BTreeMap<String, u64>,
    pub steps: u64,
    pub sim_seconds: i64,
    pub signed: u64,
    pub cas: usize,
    pub signature: String,
    pub probes: BTreeMap<String, u64>,
}

impl Stats {
    pub fn fault(&mut self, name: &str) {
        *self.faults.entry(name.into()).or_default() += 1;
    }
    pub fn probe(&mut self, name: &str) {
        *self.probes.entry(name.into()).or_default() += 1;
    }
}

pub struct RunResult {
    pub seed: u64,
    pub violations: Vec<Violation>,
    pub stats: Stats,
    pub log: Vec<String>,
    pub ops: Vec<serde_json::Value>,
}


//! Batch execution, replay and minimisation.

use std::collections::BTreeSet;
use std::io::Write;
use std::path::{Path, PathBuf};
use serde_json::{json, Value};
use crate::common::RunResult;
use crate::props::{self, Tier};
use crate::sim::mix;

pub fn tier_from(s: &str) -> Tier {
    match s { "thorough" => Tier::Thorough, _ => Tier::Quick }
}

pub fn run_seed(base: u64, property: &str, tier: Tier, index: u64) -> u64 {
    if property == "C32" || property == "C29" {
        // Exhaustive enumeration: the run index is the case number.
        return index
    }
    mix(&[
        base, crate::sim::hash_str(property),
        if tier == Tier::Thorough { 2 } else { 1 }, index
    ])
}

/// Executes one run of the engine deciding `property`.
pub fn run_one(
    property: &str, tier: Tier, seed: u64, mask: &BTreeSet<(usize, usize)>,
    scratch: &Path,
) -> RunResult {
    let property = property.to_string();
    let mask = mask.clone();
    let scratch = scratch.to_path_buf();
    // A fresh thread per run: thread-local RNG and hasher state start from
    // the run's entropy stream.
    std::thread::Builder::new().stack_size(16 << 20).spawn(move || {
        #[cfg(feature = "shuttle")]
        if property == "C36" && seed % 8 == 0 {
            // A share of the runs counts real connections on the loopback
            // listener (Engine G), including connections whose setup
            // fails. That engine cannot run on shuttle's primitives: the
            // run is handed to the ordinary build of this program.
            if let Ok(bin) = std::env::var("VERIF_PLAIN_BIN") {
                return run_via_plain(&bin, &property, tier, seed, &mask)
            }
        }
        #[cfg(feature = "shuttle")]
        if crate::engd::supported(&property) {
            return crate::engd::run(&property, seed, &mask, &scratch)
        }
        if matches!(property.as_str(), "C12" | "C13" | "C14") && seed % 8 == 0 {
            // A share of the history runs uses real ASPA objects through
            // Engine A's server mode.
            let profile = props::enga_profile("hist-aspa", tier).unwrap();
            return crate::enga::run(seed, &profile, &mask, &scratch)
        }
        if property == "C33" && seed % 16 == 0 {
            // A share of the runs produces a real failure in the middle of
            // a validation run (the store fails) through Engine A.
            let profile = props::enga_profile("store-fault", tier).unwrap();
            return crate::enga::run(seed, &profile, &mask, &scratch)
        }
        if let Some(profile) = props::enga_profile(&property, tier) {
            return crate::enga::run(seed, &profile, &mask, &scratch)
        }
        if property == "C25" {
            return crate::engb::run(
                seed, tier == Tier::Thorough, &mask, &scratch
            )
        }
        if property == "C29" {
            return crate::engb::run_c29(seed as usize, &scratch)
        }
        if property == "C19" || property == "C36" {
            return crate::engg::run(
                seed, tier == Tier::Thorough, &mask, &scratch
            )
        }
        if property == "C32" {
            return crate::engf::run_case(
                seed as usize, tier == Tier::Thorough, &scratch
            )
        }
        if property == "C23" {
            let mut profile = crate::enga::Profile::base("C23");
            profile.steps = 3;
            return crate::enga::run_crash(
                seed, &profile, &mask, &scratch, tier == Tier::Thorough
            )
        }
        if property == "C24" {
            return crate::engb::run_c24(
                seed, tier == Tier::Thorough, &mask, &scratch
            )
        }
        if property == "C26" {
            return crate::enge::run(
                seed, tier == Tier::Thorough, &mask, &scratch
            )
        }
        if let Some(profile) = crate::engc::profile(
            &property, tier == Tier::Thorough
        ) {
            return crate::engc::run(seed, &profile, &mask, &scratch)
        }
        panic!("no engine for property {property}")
    }).unwrap().join().unwrap_or_else(|_| {
        RunResult {
            seed,
            violations: vec![crate::common::Violation {
                property: "harness", class: "panic".into(),
                message: "engine panicked".into(), step: 0,
            }],
            stats: Default::default(),
            log: vec!["engine panicked".into()],
            ops: Vec::new(),
        }
    })
}

/// Executes one run in the ordinary (non-shuttle) build and reads back its
/// result.
#[cfg(feature = "shuttle")]
fn run_via_plain(
    bin: &str, property: &str, tier: Tier, seed: u64,
    mask: &BTreeSet<(usize, usize)>,
) -> RunResult {
    let mask_json = serde_json::to_string(
        &mask.iter().map(|(a, b)| vec![*a, *b]).collect::<Vec<_>>()
    ).unwrap();
    let out = std::process::Command::new(bin)
        .args(["one", property,
            if tier == Tier::Thorough { "thorough" } else { "quick" },
            &seed.to_string(), &mask_json])
        .output();
    let harness = |msg: String| RunResult {
        seed,
        violations: vec![crate::common::Violation {
            property: "harness", class: "plain-run".into(), message: msg,
            step: 0,
        }],
        stats: Default::default(), log: Vec::new(), ops: Vec::new(),
    };
    let out = match out {
        Ok(out) if out.status.success() => out,
        Ok(out) => return harness(format!("plain run ended with {}", out.status)),
        Err(err) => return harness(format!("cannot start {bin}: {err}")),
    };
    let Ok(doc) = serde_json::from_slice::<Value>(&out.stdout) else {
        return harness("plain run printed no result".into())
    };
    let mut res = RunResult {
        seed, violations: Vec::new(), stats: Default::default(),
        log: Vec::new(), ops: Vec::new(),
    };
    for v in doc["violations"].as_array().cloned().unwrap_or_default() {
        res.violations.push(crate::common::Violation {
            property: match v["property"].as_str() {
                Some("C36") => "C36", Some("C19") => "C19", _ => "harness",
            },
            class: v["class"].as_str().unwrap_or("").into(),
            message: v["message"].as_str().unwrap_or("").into(),
            step: v["step"].as_u64().unwrap_or(0) as usize,
        });
    }
    for (key, into) in [("faults", &mut res.stats.faults),
                        ("probes", &mut res.stats.probes)] {
        if let Some(map) = doc[key].as_object() {
            for (k, v) in map {
                into.insert(k.clone(), v.as_u64().unwrap_or(0));
            }
        }
    }
    res.stats.steps = doc["steps"].as_u64().unwrap_or(0);
    res.stats.signature = format!("plain:{}", doc["signature"].as_str().unwrap_or(""));
    res.ops = doc["ops"].as_array().cloned().unwrap_or_default();
    res.log = doc["log"].as_array().map(|a| {
        a.iter().filter_map(|l| l.as_str().map(String::from)).collect()
    }).unwrap_or_default();
    res
}

/// `rtsim one <property> <tier> <seed> [mask-json]`: one run, result on
/// stdout.
pub fn cmd_one(args: &[String]) -> i32 {
    let property = &args[0];
    let tier = tier_from(&args[1]);
    let seed: u64 = args[2].parse().unwrap();
    let mask: BTreeSet<(usize, usize)> = args.get(3).and_then(|text| {
        serde_json::from_str::<Vec<Vec<usize>>>(text).ok()
    }).map(|list| list.into_iter().filter(|p| p.len() == 2).map(|p| {
        (p[0], p[1])
    }).collect()).unwrap_or_default();
    let scratch = scratch_dir();
    limit_process();
    let res = run_one(property, tier, seed, &mask, &scratch);
    let _ = std::fs::remove_dir_all(&scratch);
    println!("{}", result_json(property, 0, &res, true));
    0
}

pub fn scratch_dir() -> PathBuf {
    let base = std::env::var("VERIF_SCRATCH").unwrap_or_else(|_| {
        "/dev/shm".into()
    });
    PathBuf::from(base).join(format!("rtsim-{}", std::process::id()))
}

fn result_json(
    property: &str, index: u64, res: &RunResult, full: bool
) -> Value {
    let mine: Vec<Value> = res.violations.iter().filter(|v| {
        v.property == property || v.property == "harness"
    }).map(|v| json!({
        "property": v.property, "class": v.class, "message": v.message,
        "step": v.step
    })).collect();
    let mut obj = json!({
        "index": index,
        "seed": res.seed,
        "violations": mine,
        "faults": res.stats.faults,
        "probes": res.stats.probes,
        "steps": res.stats.steps,
        "sim_seconds": res.stats.sim_seconds,
        "signed": res.stats.signed,
        "signature": format!("{:016x}", crate::sim::hash_str(&res.stats.signature)),
        "nontrivial": !res.stats.faults.is_empty(),
    });
    if full {
        obj["ops"] = json!(res.ops);
        obj["log"] = json!(res.log);
    }
    obj
}

/// `rtsim run <property> <tier> <base-seed> <from> <to> <outfile>`
pub fn cmd_run(args: &[String]) -> i32 {
    let property = &args[0];
    let tier = tier_from(&args[1]);
    let base: u64 = args[2].parse().unwrap();
    let from: u64 = args[3].parse().unwrap();
    let to: u64 = args[4].parse().unwrap();
    let mut out = std::io::BufWriter::new(
        std::fs::File::create(&args[5]).unwrap()
    );
    let scratch = scratch_dir();
    limit_process();
    let current = format!("{}.current", args[5]);
    for index in from..to {
        let seed = run_seed(base, property, tier, index);
        // Should the process die in this run, the driver finds out which
        // run it was.
        let _ = std::fs::write(&current, format!("{index} {seed}"));
        RUN_STARTED.store(now_secs(), std::sync::atomic::Ordering::SeqCst);
        let res = run_one(property, tier, seed, &BTreeSet::new(), &scratch);
        RUN_STARTED.store(0, std::sync::atomic::Ordering::SeqCst);
        let bad = res.violations.iter().any(|v| {
            v.property == property || v.property == "harness"
        });
        let full = bad || index < 2
            || std::env::var_os("VERIF_FULL_LOG").is_some();
        writeln!(out, "{}", result_json(property, index, &res, full)).unwrap();
        out.flush().unwrap();
    }
    out.flush().unwrap();
    let _ = std::fs::remove_file(&current);
    let _ = std::fs::remove_dir_all(&scratch);
    0
}

/// Start of the run in progress (seconds, real clock), 0 if none.
static RUN_STARTED: std::sync::atomic::AtomicU64 =
    std::sync::atomic::AtomicU64::new(0);

fn now_secs() -> u64 {
    // The real monotonic clock: the simulated clock must not be involved.
    let mut ts = libc::timespec { tv_sec: 0, tv_nsec: 0 };
    unsafe { libc::syscall(libc::SYS_clock_gettime, libc::CLOCK_MONOTONIC, &mut ts); }
    ts.tv_sec as u64
}

/// Guards against a simulated system that no longer terminates or eats
/// memory without bound: the address space of this process is limited and a
/// watchdog ends the process when a single run takes too long. The driver
/// turns either into a report for the run in progress.
pub fn limit_process() {
    let gib: u64 = std::env::var("VERIF_AS_LIMIT_GIB").ok()
        .and_then(|v| v.parse().ok()).unwrap_or(4);
    if gib > 0 {
        let limit = gib << 30;
        let rlim = libc::rlimit { rlim_cur: limit, rlim_max: limit };
        unsafe { libc::setrlimit(libc::RLIMIT_AS, &rlim); }
    }
    let timeout: u64 = std::env::var("VERIF_RUN_TIMEOUT").ok()
        .and_then(|v| v.parse().ok()).unwrap_or(1800);
    std::thread::spawn(move || {
        loop {
            std::thread::sleep(std::time::Duration::from_secs(1));
            let started = RUN_STARTED.load(std::sync::atomic::Ordering::SeqCst);
            if started != 0 && now_secs().saturating_sub(started) > timeout {
                eprintln!("rtsim: run exceeded {timeout}s of real time");
                unsafe { libc::_exit(3) }
            }
        }
    });
}

fn violation_class(res: &RunResult, property: &str) -> Option<String> {
    res.violations.iter().find(|v| v.property == property).map(|v| {
        v.class.clone()
    })
}

/// `rtsim shrink <property> <tier> <seed> <outfile>`: minimises the failing
/// run by masking operations while the same violation class recurs.
pub fn cmd_shrink(args: &[String]) -> i32 {
    let property = &args[0];
    let tier = tier_from(&args[1]);
    let seed: u64 = args[2].parse().unwrap();
    let scratch = scratch_dir();
    limit_process();
    let full = run_one(property, tier, seed, &BTreeSet::new(), &scratch);
    let Some(class) = violation_class(&full, property) else {
        eprintln!("shrink: seed {seed} does not violate {property}");
        return 2
    };
    // Candidate operations.
    let mut ops: Vec<(usize, usize)> = full.ops.iter().filter_map(|op| {
        Some((op["step"].as_u64()? as usize, op.get("k")?.as_u64()? as usize))
    }).collect();
    ops.sort();
    ops.dedup();
    let mut mask: BTreeSet<(usize, usize)> = BTreeSet::new();
    let mut best = full;
    let deadline = std::time::Instant::now()
        + std::time::Duration::from_secs(60);
    // One-at-a-time removal, repeated until a fixed point.
    let mut changed = true;
    while changed && std::time::Instant::now() < deadline {
        changed = false;
        for op in ops.clone() {
            if mask.contains(&op) { continue }
            let mut trial = mask.clone();
            trial.insert(op);
            let res = run_one(property, tier, seed, &trial, &scratch);
            if violation_class(&res, property).as_deref() == Some(&class) {
                mask = trial;
                best = res;
                changed = true;
            }
            if std::time::Instant::now() >= deadline { break }
        }
    }
    let violation = best.violations.iter().find(|v| {
        v.property == *property
    }).unwrap();
    // Cut the op list at the violating step.
    let ops_kept: Vec<&Value> = best.ops.iter().filter(|op| {
        op["step"].as_u64().unwrap_or(0) as usize <= violation.step
    }).collect();
    let replay = json!({
        "engine": "enga",
        "property": property,
        "tier": if tier == Tier::Thorough { "thorough" } else { "quick" },
        "seed": seed,
        "mask": mask.iter().map(|(s, k)| json!([s, k])).collect::<Vec<_>>(),
        "ops": ops_kept,
        "violation": {
            "class": violation.class, "message": violation.message,
            "step": violation.step,
        },
        "log": best.log,
    });
    std::fs::write(&args[3], serde_json::to_string_pretty(&replay).unwrap())
        .unwrap();
    let _ = std::fs::remove_dir_all(&scratch);
    0
}

/// `rtsim replay <file>`: re-executes a replay file. Exit 1 if the recorded
/// violation recurs, 0 if it does not.
pub fn cmd_replay(args: &[String]) -> i32 {
    let text = std::fs::read_to_string(&args[0]).unwrap();
    let replay: Value = serde_json::from_str(&text).unwrap();
    let property = replay["property"].as_str().unwrap().to_string();
    let tier = tier_from(replay["tier"].as_str().unwrap_or("quick"));
    let seed = replay["seed"].as_u64().unwrap();
    let mask: BTreeSet<(usize, usize)> = replay["mask"].as_array().map(|a| {
        a.iter().map(|item| (
            item[0].as_u64().unwrap() as usize,
            item[1].as_u64().unwrap() as usize
        )).collect()
    }).unwrap_or_default();
    let scratch = scratch_dir();
    limit_process();
    RUN_STARTED.store(now_secs(), std::sync::atomic::Ordering::SeqCst);
    let res = run_one(&property, tier, seed, &mask, &scratch);
    RUN_STARTED.store(0, std::sync::atomic::Ordering::SeqCst);
    let _ = std::fs::remove_dir_all(&scratch);
    for line in &res.log {
        println!("{line}");
    }
    let want = replay["violation"]["class"].as_str().unwrap_or("");
    match res.violations.iter().find(|v| v.property == property) {
        Some(v) if v.class == want => {
            println!(
                "VIOLATION property={property} replay={} class={} step={}: {}",
                args[0], v.class, v.step, v.message
            );
            1
        }
        Some(v) => {
            println!(
                "replay produced a different violation class {} (wanted {want})",
                v.class
            );
            1
        }
        None => {
            println!("replay: no violation of {property}");
            0
        }
    }
}


/// `rtsim plan <property> <tier>`: prints what a check of the property does.
pub fn cmd_plan(args: &[String]) -> i32 {
    let property = &args[0];
    let tier = tier_from(&args[1]);
    let Some(info) = props::describe(property) else {
        eprintln!("unknown property {property}");
        return 2
    };
    let mut info = info;
    info["runs"] = json!(props::runs(property, tier));
    println!("{info}");
    0
}

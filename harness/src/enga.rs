//! Engine A: the whole validation pipeline against simulated repositories.
//!
//! One run = one seeded world, a history of steps (world mutations, faults,
//! clock movement), and after every step one real validation run on a
//! persistent cache, compared with the reference model.

use std::collections::{BTreeMap, BTreeSet};
use std::path::{Path, PathBuf};
use std::rc::Rc;
use std::sync::{Arc, Mutex};
use bytes::Bytes;
use routinator::config::{Config, FallbackPolicy, FilterPolicy};
use routinator::engine::Engine;
use routinator::payload::{PayloadSnapshot, ValidationReport};
use routinator::slurm::LocalExceptions;
use serde_json::json;
use crate::gen::{self, Gen, GenCfg, DAY};
use crate::model::{
    self, Expect, Fallback, ModelState, PayloadSet, Pfx, Policy, RunCfg,
    Transport, Used,
};
use crate::pki::{P4, P6};
use crate::servers::{HttpSrv, Route, RrdpSrv, RsyncMode, RsyncSrv};
use crate::sim::{self, mix, Rng};
use crate::world::{
    Compiler, CrlFault, FileId, FileKind, Files, MftFault, PointVersion,
    PubFault, SigFault, SignCache, World,
};

pub use crate::common::{RunResult, Stats, Violation};

/// What a run concentrates on.
#[derive(Clone, Debug)]
pub struct Profile {
    pub name: String,
    pub steps: usize,
    pub gen: GenCfg,
    /// Relative weights of operation kinds.
    pub weights: Vec<(OpKind, u64)>,
    /// Ops per step (max).
    pub ops_per_step: usize,
    /// Use a random run configuration (policies etc.).
    pub random_cfg: bool,
    /// Fixed overrides.
    pub stale: Option<Policy>,
    pub unsafe_vrps: Option<Policy>,
    pub big_jumps: bool,
    pub slurm: bool,
    /// Chance (percent) that a step is a plain re-run without any op.
    pub quiet_pct: u64,
    /// The property any payload mismatch is attributed to (the profile then
    /// only uses operations relevant to that property).
    pub focus: Option<&'static str>,
    /// Candidate values for max-ca-depth.
    pub depths: Vec<usize>,
    /// Pick the object size limit around actual object sizes (C38).
    pub size_limits: bool,
    /// Check the cleanup invariants and the offline run (C40).
    pub check_cleanup: bool,
    /// Run through the server's update cycle and keep a history (C22, C34).
    pub via_server: bool,
    /// Chance (percent) that a run goes through the server's update cycle
    /// although `via_server` is off.
    pub via_server_pct: u64,
    /// Use hostile TAL labels (C22).
    pub hostile_labels: bool,
    /// Candidate (refresh, min-refresh) settings (C34).
    pub refresh_swarm: bool,
    /// Chance (percent) that dubious hosts are allowed.
    pub allow_dubious_pct: u64,
    /// Finish with a run during which the local store fails (C33).
    pub store_fault: bool,
    /// Finish with runs on a cache whose files were corrupted (C27).
    pub corrupt_local: bool,
    pub corrupt_rounds: usize,
    /// Finish with a differential pair of runs: the same world and cache
    /// without and with a fault in one repository (C41).
    pub differential: bool,
}

#[derive(Clone, Copy, Debug, PartialEq, Eq, PartialOrd, Ord)]
pub enum OpKind {
    AddObj, RemoveObj, Revoke, Touch, SigFaultObj, TimeFaultObj,
    OverclaimObj, HashMismatch, MissingFile, IllegalName, Unlisted,
    MftStale, MftPremature, MftWrongKey, MftGarbage, MftCrlOutside,
    CrlWrongKey, CrlGarbage, CrlNotListed, CrlMissing, CrlStale,
    Replay, NotNewer, RsyncFail, RrdpFail, AddChild, DropChild,
    CertFault, CertOverclaim, CycleCert, TaFault, RevokeChild, ExpireMftEe,
    TalRekey, BigAspa, AspaChange, MoveCa, CorruptArchive,
}

impl Profile {
    pub fn base(name: &str) -> Self {
        use OpKind::*;
        Profile {
            name: name.into(),
            steps: 4,
            gen: GenCfg::default(),
            weights: vec![
                (AddObj, 10), (RemoveObj, 4), (Revoke, 4), (Touch, 6),
                (SigFaultObj, 6), (TimeFaultObj, 5), (OverclaimObj, 4),
                (HashMismatch, 5), (MissingFile, 5), (IllegalName, 1),
                (Unlisted, 2),
                (MftStale, 3), (MftPremature, 3), (MftWrongKey, 2),
                (MftGarbage, 1), (MftCrlOutside, 1),
                (CrlWrongKey, 2), (CrlGarbage, 1), (CrlNotListed, 1),
                (CrlMissing, 2), (CrlStale, 2),
                (Replay, 4), (NotNewer, 3), (RsyncFail, 4), (RrdpFail, 4),
                (AddChild, 3), (DropChild, 1), (CertFault, 2),
                (CertOverclaim, 2), (CycleCert, 1), (TaFault, 2),
                (RevokeChild, 1), (ExpireMftEe, 1), (TalRekey, 1),
            ],
            ops_per_step: 3,
            random_cfg: true,
            stale: None,
            unsafe_vrps: None,
            big_jumps: true,
            slurm: false,
            quiet_pct: 15,
            focus: None,
            depths: vec![32],
            size_limits: false,
            check_cleanup: false,
            via_server: false,
            via_server_pct: 0,
            hostile_labels: false,
            refresh_swarm: false,
            allow_dubious_pct: 0,
            store_fault: false,
            differential: false,
            corrupt_local: false,
            corrupt_rounds: 5,
        }
    }

    fn pick_op(&self, rng: &mut Rng) -> OpKind {
        let total: u64 = self.weights.iter().map(|w| w.1).sum();
        let mut roll = rng.below(total.max(1));
        for (kind, weight) in &self.weights {
            if roll < *weight {
                return *kind
            }
            roll -= weight;
        }
        OpKind::Touch
    }
}


//------------ Handler -------------------------------------------------------

/// The hook handler installed for Engine A runs.
pub struct Handler {
    pub http: HttpSrv,
    pub perm_seed: Mutex<Option<u64>>,
    pub perm_calls: Mutex<u64>,
    pub kill: Mutex<Option<Arc<crate::engb::KillCtl>>>,
    /// Number of injectable file operations seen since the last reset.
    pub io_calls: std::sync::atomic::AtomicI64,
    /// Fail the file operation with this index (-1: none).
    pub io_fail_at: std::sync::atomic::AtomicI64,
    /// The site at which the failure was injected.
    pub io_fired: Mutex<Option<String>>,
}

impl routinator::verif::Handler for Handler {
    fn buggify(&self, site: &'static str) -> bool {
        use std::sync::atomic::Ordering;
        if !(site.starts_with("fatal.") || site.starts_with("store.")) {
            return false
        }
        let n = self.io_calls.fetch_add(1, Ordering::SeqCst);
        if n == self.io_fail_at.load(Ordering::SeqCst) {
            *self.io_fired.lock().unwrap() = Some(site.into());
            return true
        }
        false
    }

    fn http(
        &self, req: &routinator::verif::HttpRequest
    ) -> Option<routinator::verif::HttpResponse> {
        Some(self.http.respond(
            &req.uri, req.etag.as_deref(), req.if_modified_since.as_deref()
        ))
    }

    fn kill_point(&self, site: &'static str) {
        use std::sync::atomic::Ordering;
        let kill = self.kill.lock().unwrap().clone();
        let Some(kill) = kill else { return };
        let n = kill.counter.fetch_add(1, Ordering::SeqCst);
        if n == kill.at.load(Ordering::SeqCst) {
            let _ = std::fs::remove_dir_all(&kill.image);
            crate::engb::copy_dir(&kill.cache, &kill.image);
            *kill.taken_site.lock().unwrap() = Some(site.into());
        }
    }

    fn permute(&self, _site: &'static str, len: usize) -> Option<Vec<usize>> {
        let seed = (*self.perm_seed.lock().unwrap())?;
        let mut calls = self.perm_calls.lock().unwrap();
        *calls += 1;
        let mut rng = Rng::new(mix(&[seed, *calls]));
        let mut perm: Vec<usize> = (0..len).collect();
        rng.shuffle(&mut perm);
        Some(perm)
    }
}


//------------ Sim -----------------------------------------------------------

pub struct Sim {
    pub seed: u64,
    pub profile: Profile,
    pub scratch: PathBuf,
    pub world: World,
    pub files: Files,
    pub cache: SignCache,
    pub now: i64,
    pub start: i64,
    /// Per CA: all versions ever published, newest last.
    pub history: Vec<Vec<Rc<PointVersion>>>,
    /// CAs whose spec changed since the last publish.
    pub dirty: BTreeSet<usize>,
    /// Per CA: serve this older version in the current step.
    pub replay: BTreeMap<usize, usize>,
    /// Per CA: keep the manifest number / thisUpdate on the next publish.
    pub hold_number: BTreeSet<usize>,
    pub hold_this_update: BTreeSet<usize>,
    /// CAs that carry a one-step fault and must be repaired next step.
    pub repair: BTreeSet<usize>,
    /// CAs whose certificate carries a one-step fault.
    pub cert_repair: BTreeSet<usize>,
    /// Time faults to apply at the next publish of a CA.
    pub time_faults: BTreeMap<usize, OpKind>,
    pub rsync: RsyncSrv,
    pub rrdp: Vec<RrdpSrv>,
    pub http: HttpSrv,
    pub handler: Arc<Handler>,
    pub rsync_fail: BTreeSet<String>,
    pub rrdp_fail: BTreeSet<String>,
    pub ta_fault: BTreeMap<usize, TaFaultKind>,
    pub cfg: RunCfg,
    pub state: ModelState,
    pub stats: Stats,
    pub log: Vec<String>,
    pub ops: Vec<serde_json::Value>,
    pub violations: Vec<Violation>,
    pub exceptions_json: Option<String>,
    pub slurm: Option<SlurmModel>,
    /// TA certificate files currently served per TAL index.
    pub ta_files: BTreeMap<usize, FileId>,
    /// Keep one engine alive over all steps (like the server does) instead
    /// of creating one per run (like the one-shot commands do).
    pub reuse_engine: bool,
    pub engine: Option<Engine>,
    /// Overwrite an RRDP archive with garbage before the next run.
    pub corrupt_archive: bool,
    pub store_fault_now: bool,
    /// File operations the last regular run performed.
    pub last_io_calls: i64,
    pub diff_now: bool,
    pub corrupt_now: bool,
    /// Operations apply to this CA instead of a random one.
    pub force_ca: Option<usize>,
    /// Server-mode state.
    pub server: Option<ServerState>,
    pub tal_labels: BTreeMap<String, String>,
    pub min_refresh: Option<i64>,
    /// Number and thisUpdate of every stored manifest after the last run.
    pub stored_seen: BTreeMap<String, (Vec<u8>, i64, Bytes)>,
    /// The step whose validation run is interrupted at every kill point.
    pub crash_step: Option<usize>,
    pub crash_thorough: bool,
    pub crash_mask: BTreeSet<(usize, usize)>,
}

#[derive(Clone, Copy, Debug, PartialEq, Eq)]
pub enum TaFaultKind {
    /// HTTPS/rsync download gives nothing.
    Unreachable,
    /// The served certificate is garbage.
    Garbage,
    /// The served certificate is a valid self-signed one for another key.
    OtherKey,
    /// The served certificate is expired.
    Expired,
}

/// Local exceptions in model terms.
#[derive(Clone, Debug, Default)]
pub struct SlurmModel {
    pub filter_asn: Vec<u32>,
    pub filter_v4: Vec<P4>,
    pub assert_origins: Vec<(u32, Pfx, u8)>,
}

pub fn run(
    seed: u64, profile: &Profile, mask: &BTreeSet<(usize, usize)>,
    scratch: &Path,
) -> RunResult {
    let mut sim = Sim::new(seed, profile.clone(), scratch);
    for step in 0..profile.steps {
        sim.step(step, mask);
        if sim.violations.iter().any(|v| v.class == "harness") {
            break
        }
    }
    if profile.store_fault && sim.violations.is_empty() {
        sim.store_fault_now = true;
        sim.step(profile.steps, mask);
    }
    if profile.differential && sim.violations.is_empty() {
        sim.diff_now = true;
        sim.step(profile.steps, mask);
    }
    if profile.corrupt_local && sim.violations.is_empty() {
        sim.corrupt_now = true;
        sim.step(profile.steps, mask);
    }
    sim.finish()
}

impl Sim {
    pub fn new(seed: u64, mut profile: Profile, scratch: &Path) -> Self {
        if !profile.via_server
            && mix(&[seed, 10]) % 100 < profile.via_server_pct
        {
            profile.via_server = true;
        }
        let _ = std::fs::remove_dir_all(scratch);
        std::fs::create_dir_all(scratch.join("cache")).unwrap();
        std::fs::create_dir_all(scratch.join("tals")).unwrap();
        let mut rng = Rng::new(mix(&[seed, 1]));
        let start = 1_750_000_000 + rng.below(10_000_000) as i64;
        sim::clock::set(start);
        sim::entropy::set(mix(&[seed, 2]));

        let mut grng = rng.fork("world");
        let world = Gen::new(&mut grng, profile.gen.clone(), start).world();

        let http = HttpSrv::default();
        let handler = Arc::new(Handler {
            http: http.clone(),
            perm_seed: Mutex::new(None),
            perm_calls: Mutex::new(0),
            kill: Mutex::new(None),
            io_calls: std::sync::atomic::AtomicI64::new(0),
            io_fail_at: std::sync::atomic::AtomicI64::new(-1),
            io_fired: Mutex::new(None),
        });
        routinator::verif::install(handler.clone());

        let mut crng = rng.fork("cfg");
        let cfg = Self::gen_cfg(&profile, &mut crng);

        let mut rrdp = Vec::new();
        for (i, repo) in world.repos.iter().enumerate() {
            rrdp.push(RrdpSrv::new(
                &repo.host,
                crate::servers::uuid_from(mix(&[seed, 77, i as u64]), i as u64),
            ));
        }

        let n_cas = world.cas.len();
        let mut sim = Sim {
            seed, profile,
            scratch: scratch.into(),
            history: vec![Vec::new(); n_cas],
            dirty: (0..n_cas).collect(),
            world,
            files: Files::default(),
            cache: SignCache::default(),
            now: start, start,
            replay: BTreeMap::new(),
            hold_number: BTreeSet::new(),
            hold_this_update: BTreeSet::new(),
            repair: BTreeSet::new(),
            cert_repair: BTreeSet::new(),
            time_faults: BTreeMap::new(),
            rsync: RsyncSrv::new(scratch.join("rsyncsrv")),
            rrdp, http, handler,
            rsync_fail: BTreeSet::new(),
            rrdp_fail: BTreeSet::new(),
            ta_fault: BTreeMap::new(),
            cfg,
            state: ModelState::default(),
            stats: Stats::default(),
            log: Vec::new(),
            ops: Vec::new(),
            violations: Vec::new(),
            exceptions_json: None,
            slurm: None,
            ta_files: BTreeMap::new(),
            corrupt_archive: false,
            store_fault_now: false,
            last_io_calls: 0,
            diff_now: false,
            corrupt_now: false,
            force_ca: None,
            server: None,
            tal_labels: BTreeMap::new(),
            min_refresh: None,
            stored_seen: BTreeMap::new(),
            reuse_engine: mix(&[seed, 9]) % 2 == 0,
            engine: None,
            crash_step: None,
            crash_thorough: false,
            crash_mask: BTreeSet::new(),
        };
        sim.stats.cas = n_cas;
        if sim.profile.hostile_labels {
            let mut lrng = rng.fork("labels");
            let hostile = [
                "quo\"te", "back\\slash", "tab\there", "new\nline",
                "esc\u{1b}[31m", "uni\u{e4}\u{1f4a9}", "brace}{", "nul\u{0}x",
                "del\u{7f}x", "c1\u{85}\u{9b}x", "cr\rlf", "ff\u{c}bs\u{8}",
                "sep\u{2028}\u{2029}", "plain-label",
            ];
            for tal in &sim.world.tals {
                if lrng.chance(80, 100) {
                    sim.tal_labels.insert(
                        format!("{}.tal", tal.name),
                        format!("{} {}", tal.name, lrng.pick(&hostile))
                    );
                }
            }
        }
        if sim.profile.refresh_swarm {
            let mut rrng = rng.fork("refresh");
            sim.cfg.refresh = *rrng.pick(&[1, 10, 600, 86400]);
            sim.min_refresh = *rrng.pick(
                &[None, Some(1), Some(60), Some(600), Some(7200)]
            );
        }
        sim.write_tals();
        if sim.profile.slurm {
            let mut srng = rng.fork("slurm");
            sim.gen_slurm(&mut srng);
        }
        sim
    }

    fn gen_cfg(profile: &Profile, rng: &mut Rng) -> RunCfg {
        let pol = |rng: &mut Rng| {
            *rng.pick(&[Policy::Reject, Policy::Warn, Policy::Accept])
        };
        let mut cfg = RunCfg {
            stale: Policy::Reject,
            unsafe_vrps: Policy::Accept,
            limit_v4: None,
            limit_v6: None,
            bgpsec: true,
            aspa: true,
            max_depth: 32,
            rrdp_on: true,
            rsync_on: true,
            fallback: Fallback::Stale,
            refresh: 600,
            fallback_time: 3600,
            dirty: false,
            max_object_size: Some(20_000_000),
            allow_dubious: false,
        };
        if profile.random_cfg {
            cfg.stale = pol(rng);
            cfg.unsafe_vrps = pol(rng);
            if rng.chance(30, 100) {
                cfg.limit_v4 = Some(*rng.pick(&[16, 20, 24, 28]));
            }
            if rng.chance(30, 100) {
                cfg.limit_v6 = Some(*rng.pick(&[32, 48, 64]));
            }
            cfg.bgpsec = rng.chance(70, 100);
            cfg.aspa = rng.chance(70, 100);
            cfg.fallback = *rng.pick(
                &[Fallback::Never, Fallback::Stale, Fallback::New]
            );
            if rng.chance(10, 100) { cfg.rrdp_on = false }
            else if rng.chance(10, 100) { cfg.rsync_on = false }
            cfg.dirty = rng.chance(15, 100);
        }
        cfg.max_depth = *rng.pick(&profile.depths);
        cfg.allow_dubious = rng.chance(profile.allow_dubious_pct, 100);
        if let Some(stale) = profile.stale { cfg.stale = stale }
        if let Some(pol) = profile.unsafe_vrps { cfg.unsafe_vrps = pol }
        if profile.name == "C08" && rng.chance(50, 100) {
            cfg.unsafe_vrps = Policy::Reject;
        }
        cfg
    }

    fn write_tals(&self) {
        for tal in &self.world.tals {
            let text = crate::pki::make_tal(&tal.uris, tal.key);
            std::fs::write(
                self.scratch.join("tals").join(format!("{}.tal", tal.name)),
                text
            ).unwrap();
        }
    }

    fn gen_slurm(&mut self, rng: &mut Rng) {
        let mut slurm = SlurmModel::default();
        if rng.chance(50, 100) {
            slurm.filter_asn.push(64500 + rng.below(6) as u32);
        }
        if rng.chance(50, 100) {
            let blocks = gen::ta_blocks(0);
            let base = *rng.pick(&blocks.v4);
            let bits = rng.below(5) as u8;
            let p = P4::new(
                base.addr | ((rng.below(1 << bits.max(1)) as u32) << (24 - bits.min(24))),
                8 + bits
            );
            slurm.filter_v4.push(p);
        }
        let n = rng.usize(3);
        for _ in 0..n {
            let asn = 64500 + rng.below(6) as u32;
            let p = P4::new((198u32 << 24) | (51 << 16) | ((rng.below(4) as u32) << 8), 24);
            slurm.assert_origins.push((asn, Pfx::V4(p), 24 + rng.below(3) as u8));
        }
        let mut filters = Vec::new();
        for asn in &slurm.filter_asn {
            filters.push(json!({"asn": asn, "comment": "sim"}));
        }
        for p in &slurm.filter_v4 {
            filters.push(json!({"prefix": p.to_string(), "comment": "sim"}));
        }
        let mut asserts = Vec::new();
        for (asn, pfx, max) in &slurm.assert_origins {
            asserts.push(json!({
                "asn": asn, "prefix": pfx.to_string(),
                "maxPrefixLength": max, "comment": "sim"
            }));
        }
        let doc = json!({
            "slurmVersion": 1,
            "validationOutputFilters": {
                "prefixFilters": filters, "bgpsecFilters": []
            },
            "locallyAddedAssertions": {
                "prefixAssertions": asserts, "bgpsecAssertions": []
            }
        });
        self.exceptions_json = Some(doc.to_string());
        std::fs::write(
            self.scratch.join("exceptions.json"), doc.to_string()
        ).unwrap();
        self.slurm = Some(slurm);
    }

    pub fn note(&mut self, msg: String) {
        self.log.push(msg);
    }

    pub fn violation(
        &mut self, property: &'static str, class: &str, step: usize,
        message: String,
    ) {
        self.log.push(format!("VIOLATION {property} {class}: {message}"));
        self.violations.push(Violation {
            property, class: class.into(), message, step
        });
    }

    //--- Step

    pub fn step(&mut self, step: usize, mask: &BTreeSet<(usize, usize)>) {
        let mut srng = Rng::new(mix(&[self.seed, 100, step as u64]));
        self.rsync_fail.clear();
        self.rrdp_fail.clear();
        self.replay.clear();
        self.ta_fault.clear();

        // Clock.
        if step > 0 {
            let delta = self.pick_clock_delta(&mut srng);
            self.now += delta;
            self.note(format!("step {step}: clock +{delta}s"));
            self.ops.push(json!({"step": step, "op": "clock", "delta": delta}));
        }
        sim::clock::set(self.now);

        // Repair the one-step faults of the previous step.
        let repair = std::mem::take(&mut self.repair);
        for ca in repair {
            let spec = &mut self.world.cas[ca];
            spec.pub_faults.clear();
            spec.mft_fault = None;
            spec.crl_fault = None;
            self.dirty.insert(ca);
        }

        let cert_repair = std::mem::take(&mut self.cert_repair);
        for ca in cert_repair {
            let spec = &mut self.world.cas[ca];
            spec.cert.fault = None;
            spec.cert.res.v4.retain(|p| (p.addr >> 24) != 203);
            spec.cert.serial += 1;
            if let Some(parent) = spec.parent {
                self.dirty.insert(parent);
            }
        }

        // The dubious-hosts option may differ from run to run (the cache
        // keeps what an earlier, more permissive run fetched).
        if self.profile.allow_dubious_pct > 0 && step > 0 {
            let mut drng = Rng::new(mix(&[self.seed, 110, step as u64]));
            self.cfg.allow_dubious = drng.chance(
                self.profile.allow_dubious_pct, 100
            );
            self.engine = None;
            self.note(format!(
                "step {step}: allow-dubious-hosts {}", self.cfg.allow_dubious
            ));
        }

        // Operations.
        let quiet = step > 0 && srng.chance(self.profile.quiet_pct, 100);
        let n_ops = if quiet { 0 } else if step == 0 && self.profile.name == "C08" {
            4 + srng.usize(6)
        } else {
            1 + srng.usize(self.profile.ops_per_step)
        };
        for k in 0..n_ops {
            let mut orng = Rng::new(mix(&[self.seed, 200, step as u64, k as u64]));
            if mask.contains(&(step, k)) {
                continue
            }
            // The first step builds the initial state: mostly benign ops.
            let kind = self.profile.pick_op(&mut orng);
            self.apply_op(step, k, kind, &mut orng);
        }

        if self.crash_step == Some(step) {
            // No transport faults in the interrupted run: its outcome must
            // not depend on which collector copies survive.
            self.rsync_fail.clear();
            self.rrdp_fail.clear();
        }
        self.publish(step);
        let transport = self.build_servers(step);
        if self.profile.size_limits && step == 0 {
            self.pick_size_limit(&transport);
        }
        if std::mem::take(&mut self.corrupt_archive)
            && self.profile.check_cleanup
        {
            let listing = self.list_cache();
            self.corrupt_and_fail(step, &listing);
            let _ = self.rsync.take_log();
            let _ = self.http.take_log();
        }
        let mut state = self.state.clone();
        let expect = model::evaluate(
            &self.files, &self.world.tals, &self.cfg, &transport, self.now,
            &mut state,
        );
        if !self.cfg.dirty {
            model::cleanup(
                &self.files, &mut state, self.now,
                &expect.rsync_modules_accessed(),
                &expect.rrdp_repos,
                self.cfg.rsync_on, self.cfg.rrdp_on,
            );
        }
        if self.crash_step == Some(step) {
            self.crash_explore(step, &expect, &transport, state);
            return
        }
        let before = self.profile.check_cleanup.then(|| self.list_cache());
        self.reset_perm(step);
        if self.store_fault_now {
            self.store_fault_run(step, &expect, &transport);
            return
        }
        if self.corrupt_now {
            self.corrupt_runs(step, mask);
            return
        }
        let diff_base = self.scratch.join("diff-base");
        if self.diff_now {
            let _ = std::fs::remove_dir_all(&diff_base);
            crate::engb::copy_dir(&self.scratch.join("cache"), &diff_base);
        }
        self.handler.io_calls.store(0, std::sync::atomic::Ordering::SeqCst);
        let real = self.real_run(step);
        self.last_io_calls = self.handler.io_calls.load(
            std::sync::atomic::Ordering::SeqCst
        );
        self.stats.steps += 1;
        if let (Some(before), Ok(_)) = (before.as_ref(), real.as_ref()) {
            self.check_cleanup(step, before, &state);
        }
        match real {
            Ok((snapshot, counts)) => {
                self.check_run(step, &expect, &snapshot, &transport);
                self.check_points(step, &expect, counts);
                self.check_history_clients(step);
                self.state = state;
                self.check_store(step, &expect);
                if self.diff_now && self.violations.is_empty() {
                    self.differential(step, &diff_base, &snapshot);
                }
            }
            Err(msg) => {
                self.violation(
                    "C41", "run-failed", step,
                    format!("validation run failed: {msg}")
                );
                // The model state is no longer in line; stop here.
                self.violations.push(Violation {
                    property: "-", class: "harness".into(),
                    message: "stop".into(), step
                });
            }
        }
    }

    /// Chooses the object size limit relative to the sizes of the TA
    /// certificates and RRDP objects actually served.
    fn pick_size_limit(&mut self, transport: &Transport) {
        let mut rng = Rng::new(mix(&[self.seed, 700]));
        let mut sizes: Vec<u64> = Vec::new();
        for id in transport.https_ta.values() {
            sizes.push(self.files.get(*id).bytes.len() as u64);
        }
        for objects in transport.rrdp_objects.values() {
            if let Some(max) = objects.values().map(|id| {
                self.files.get(*id).bytes.len() as u64
            }).max() {
                sizes.push(max);
            }
        }
        let limit = match rng.below(10) {
            0..=2 => None,
            3 => Some(20_000_000),
            _ if sizes.is_empty() => Some(2000),
            4 | 5 => {
                // A limit below an object's size that coincides with a read
                // boundary of the transfer: a multiple of the body chunk
                // sizes of the simulated transport (7, 100) or of the block
                // size of the base64 decoder for RRDP objects (768).
                let size = *rng.pick(&sizes);
                let unit = *rng.pick(&[700u64, 768, 100, 7 * 61]);
                let k = (size.saturating_sub(1)) / unit;
                if k == 0 { Some(size - 1) }
                else { Some(unit * (1 + rng.below(k))) }
            }
            _ => {
                let size = *rng.pick(&sizes);
                Some((size as i64 + rng.range(-1, 1)) as u64)
            }
        };
        self.cfg.max_object_size = limit;
        self.stats.fault(match limit {
            None => "limit-disabled",
            Some(20_000_000) => "limit-default",
            Some(l) if l % 700 == 0 || l % 768 == 0 || l % 100 == 0
                || l % 427 == 0 => "limit-at-read-boundary",
            _ => "limit-at-object-size",
        });
        self.note(format!("object size limit {limit:?} (sizes {sizes:?})"));
        self.ops.push(json!({"step": 0, "op": "size-limit", "limit": limit}));
    }

    fn reset_perm(&self, step: usize) {
        self.handler.perm_seed.lock().unwrap().replace(
            mix(&[self.seed, 300, step as u64])
        );
        *self.handler.perm_calls.lock().unwrap() = 0;
    }

    fn pick_clock_delta(&mut self, rng: &mut Rng) -> i64 {
        if self.profile.big_jumps {
            match rng.below(10) {
                0..=5 => rng.range(30, 500),
                6 => rng.range(4000, 20_000),
                7 => rng.range(1, 4) * DAY,
                8 => rng.range(8, 15) * DAY,
                _ => rng.range(50, 100) * DAY,
            }
        }
        else {
            rng.range(30, 500)
        }
    }

    fn pick_ca(&self, rng: &mut Rng) -> usize {
        if let Some(ca) = self.force_ca {
            return ca
        }
        rng.usize(self.world.cas.len())
    }

    fn pick_active_ca(&self, rng: &mut Rng) -> usize {
        for _ in 0..8 {
            let ca = self.pick_ca(rng);
            if self.world.cas[ca].active {
                return ca
            }
        }
        0
    }

    fn apply_op(&mut self, step: usize, k: usize, kind: OpKind, rng: &mut Rng) {
        use OpKind::*;
        let ca = self.pick_active_ca(rng);
        let now = self.now;
        let mut detail = json!({});
        let mut applied = true;
        match kind {
            AddObj => {
                let mut g = Gen::new(rng, self.profile.gen.clone(), now);
                g.seed_names(step, k);
                if let Some(obj) = g.object(&mut self.world, ca, None) {
                    detail = json!({"name": obj.name, "payload": format!("{:?}", obj.payload)});
                    self.world.cas[ca].objs.push(obj);
                    self.dirty.insert(ca);
                }
                else { applied = false }
            }
            RemoveObj => {
                let spec = &mut self.world.cas[ca];
                if spec.objs.is_empty() { applied = false }
                else {
                    let idx = rng.usize(spec.objs.len());
                    let obj = spec.objs.remove(idx);
                    detail = json!({"name": obj.name});
                    self.dirty.insert(ca);
                }
            }
            Revoke => {
                let spec = &mut self.world.cas[ca];
                if spec.objs.is_empty() { applied = false }
                else {
                    let idx = rng.usize(spec.objs.len());
                    let serial = spec.objs[idx].serial;
                    detail = json!({"name": spec.objs[idx].name});
                    spec.revoked.insert(serial);
                    self.dirty.insert(ca);
                }
            }
            Touch => { self.dirty.insert(ca); }
            SigFaultObj => {
                let mut g = Gen::new(rng, self.profile.gen.clone(), now);
                g.seed_names(step, k);
                let fault = g.sig_fault();
                if let Some(mut obj) = g.object(&mut self.world, ca, None) {
                    if obj.payload == crate::world::Payload::Other {
                        applied = false
                    }
                    else {
                        if matches!(obj.payload, crate::world::Payload::Router{..})
                            && fault == SigFault::WrongCmsKey
                        {
                            obj.fault = Some(SigFault::WrongIssuerKey);
                        }
                        else {
                            obj.fault = Some(fault);
                        }
                        detail = json!({"name": obj.name, "fault": format!("{:?}", obj.fault)});
                        self.world.cas[ca].objs.push(obj);
                        self.dirty.insert(ca);
                    }
                }
                else { applied = false }
            }
            TimeFaultObj => {
                let mut g = Gen::new(rng, self.profile.gen.clone(), now);
                g.seed_names(step, k);
                if let Some(mut obj) = g.object(&mut self.world, ca, None) {
                    if g.rng.chance(50, 100) {
                        obj.nb = now - 20 * DAY;
                        obj.na = now - g.rng.range(120, 5 * DAY);
                        detail = json!({"name": obj.name, "fault": "expired"});
                    }
                    else {
                        obj.nb = now + g.rng.range(120, 3 * DAY);
                        obj.na = obj.nb + 30 * DAY;
                        detail = json!({"name": obj.name, "fault": "not-yet-valid"});
                    }
                    self.world.cas[ca].objs.push(obj);
                    self.dirty.insert(ca);
                }
                else { applied = false }
            }
            OverclaimObj => {
                // Payload outside the CA's resources.
                if self.world.cas[ca].cert.res == crate::pki::Res::all() {
                    applied = false
                }
                else {
                    let mut g = Gen::new(rng, self.profile.gen.clone(), now);
                    g.seed_names(step, k);
                    let serial = self.world.serial();
                    let payload = match g.rng.below(3) {
                        0 => crate::world::Payload::Roa {
                            asn: 64500,
                            v4: vec![(
                                P4::new((203u32 << 24) | (g.rng.below(200) as u32) << 8, 24),
                                None
                            )],
                            v6: vec![],
                        },
                        1 => crate::world::Payload::Aspa {
                            customer: 4_000_000_000 + g.rng.below(100) as u32,
                            providers: vec![65001],
                        },
                        _ => crate::world::Payload::Router {
                            asns: vec![4_000_000_000 + g.rng.below(100) as u32],
                            ec: 0,
                        },
                    };
                    let obj = crate::world::ObjSpec {
                        name: g.obj_name(payload.ext()),
                        payload, serial,
                        nb: now - 3600, na: now + 30 * DAY,
                        ee_key: g.ee_key(), fault: None, salt: 0,
                    };
                    detail = json!({"name": obj.name, "payload": format!("{:?}", obj.payload)});
                    self.world.cas[ca].objs.push(obj);
                    self.dirty.insert(ca);
                }
            }
            HashMismatch | MissingFile => {
                let spec = &mut self.world.cas[ca];
                let mut names: Vec<String> = spec.objs.iter().map(
                    |o| o.name.clone()
                ).collect();
                for &child in &spec.children {
                    names.push(format!("ca{child}.cer"));
                }
                if names.is_empty() { applied = false }
                else {
                    let name = rng.pick(&names).clone();
                    detail = json!({"name": name});
                    spec.pub_faults.push(if kind == HashMismatch {
                        PubFault::HashMismatch(name)
                    } else {
                        PubFault::Missing(name)
                    });
                    self.dirty.insert(ca);
                    self.repair.insert(ca);
                }
            }
            IllegalName => {
                self.world.cas[ca].pub_faults.push(PubFault::IllegalName);
                self.dirty.insert(ca);
                self.repair.insert(ca);
            }
            Unlisted => {
                let mut g = Gen::new(rng, self.profile.gen.clone(), now);
                g.seed_names(step, k);
                if let Some(obj) = g.object(&mut self.world, ca, Some(0)) {
                    detail = json!({"name": obj.name});
                    self.world.cas[ca].unlisted.push(obj);
                    self.dirty.insert(ca);
                }
                else { applied = false }
            }
            MftStale | CrlStale | MftPremature | ExpireMftEe => {
                // Applied at publish time.
                self.time_faults.insert(ca, kind);
                self.dirty.insert(ca);
                self.repair.insert(ca);
            }
            MftWrongKey | MftGarbage | MftCrlOutside => {
                self.world.cas[ca].mft_fault = Some(match kind {
                    MftWrongKey => MftFault::WrongKey,
                    MftGarbage => MftFault::Garbage,
                    _ => MftFault::CrlUriOutside,
                });
                self.dirty.insert(ca);
                self.repair.insert(ca);
            }
            CrlWrongKey | CrlGarbage | CrlNotListed | CrlMissing => {
                self.world.cas[ca].crl_fault = Some(match kind {
                    CrlWrongKey => CrlFault::WrongKey,
                    CrlGarbage => CrlFault::Garbage,
                    CrlNotListed => CrlFault::NotListed,
                    _ => CrlFault::Missing,
                });
                self.dirty.insert(ca);
                self.repair.insert(ca);
            }
            Replay => {
                let n = self.history[ca].len();
                if n < 2 { applied = false }
                else {
                    let idx = rng.usize(n - 1);
                    detail = json!({"version": idx, "of": n});
                    self.replay.insert(ca, idx);
                }
            }
            NotNewer => {
                if self.history[ca].is_empty() { applied = false }
                else {
                    match rng.below(3) {
                        0 => { self.hold_number.insert(ca); }
                        1 => { self.hold_this_update.insert(ca); }
                        _ => {
                            self.hold_number.insert(ca);
                            self.hold_this_update.insert(ca);
                        }
                    }
                    // Needs a content change to be a different manifest.
                    let mut g = Gen::new(rng, self.profile.gen.clone(), now);
                    g.seed_names(step, k);
                    if let Some(obj) = g.object(&mut self.world, ca, Some(0)) {
                        self.world.cas[ca].objs.push(obj);
                    }
                    self.dirty.insert(ca);
                }
            }
            RsyncFail => {
                let module = self.world.cas[ca].module_uri();
                detail = json!({"module": module});
                self.rsync_fail.insert(module);
            }
            RrdpFail => {
                match self.world.cas[ca].rrdp {
                    Some(repo) => {
                        let notify = self.world.repos[repo].notify_uri();
                        if self.rrdp_fail_ok(&notify) {
                            detail = json!({"repo": notify});
                            self.rrdp_fail.insert(notify);
                        }
                        else { applied = false }
                    }
                    None => applied = false
                }
            }
            AddChild => {
                if self.world.cas.len() >= self.profile.gen.max_cas + 3 {
                    applied = false
                }
                else {
                    let mut g = Gen::new(rng, self.profile.gen.clone(), now);
                    g.seed_names(step, k);
                    g.seed_keys(self.world.cas.len());
                    let child = g.child_ca(&mut self.world, ca);
                    for _ in 0..2 {
                        if let Some(obj) = g.object(&mut self.world, child, None) {
                            self.world.cas[child].objs.push(obj);
                        }
                    }
                    self.history.push(Vec::new());
                    detail = json!({"child": child});
                    self.dirty.insert(ca);
                    self.dirty.insert(child);
                }
            }
            DropChild => {
                let spec = &self.world.cas[ca];
                if spec.parent.is_none() { applied = false }
                else {
                    let parent = spec.parent.unwrap();
                    self.world.cas[ca].active = false;
                    self.dirty.insert(parent);
                }
            }
            RevokeChild => {
                let spec = &self.world.cas[ca];
                if let Some(parent) = spec.parent {
                    let serial = spec.cert.serial;
                    self.world.cas[parent].revoked.insert(serial);
                    self.dirty.insert(parent);
                }
                else { applied = false }
            }
            CertFault => {
                let spec = &mut self.world.cas[ca];
                if let Some(parent) = spec.parent {
                    let fault = *rng.pick(&[
                        SigFault::WrongIssuerKey, SigFault::Garbage,
                        SigFault::CrlUriMismatch
                    ]);
                    spec.cert.fault = Some(fault);
                    spec.cert.serial += 1_000_000;
                    detail = json!({"fault": format!("{fault:?}")});
                    self.dirty.insert(parent);
                    self.cert_repair.insert(ca);
                }
                else { applied = false }
            }
            CertOverclaim => {
                let parent = self.world.cas[ca].parent;
                match parent {
                    Some(parent)
                        if self.world.cas[parent].cert.res
                            != crate::pki::Res::all() =>
                    {
                        let spec = &mut self.world.cas[ca];
                        spec.cert.res.v4.push(
                            P4::new((203u32 << 24) | ((rng.below(200) as u32) << 16), 16)
                        );
                        spec.cert.serial += 1_000_000;
                        self.dirty.insert(parent);
                        self.cert_repair.insert(ca);
                    }
                    _ => applied = false
                }
            }
            CycleCert => {
                let mut g = Gen::new(rng, self.profile.gen.clone(), now);
                g.seed_names(step, k);
                if let Some(cert) = g.cycle_cert(&mut self.world, ca) {
                    detail = json!({"target": cert.target, "name": cert.name});
                    self.world.cas[ca].extra_certs.push(cert);
                    self.dirty.insert(ca);
                }
            }
            BigAspa => {
                // Several ASPA objects for one customer whose provider
                // union exceeds what fits into an RTR PDU.
                let pool = gen::effective_pool(&self.world, ca);
                match pool.asn.first().copied() {
                    None => applied = false,
                    Some((lo, _)) => {
                        let customer = lo + rng.below(3) as u32;
                        let (n, size) = *rng.pick(
                            &[(3usize, 9000u32), (4, 8000), (2, 9000), (3, 5000)]
                        );
                        for j in 0..n {
                            let serial = self.world.serial();
                            let base = 1_000_000 + (j as u32) * 20_000;
                            let providers: Vec<u32> = (0..size).map(|i| {
                                base + i
                            }).collect();
                            let obj = crate::world::ObjSpec {
                                name: format!("big{}-{}-{}.asa", step, k, j),
                                payload: crate::world::Payload::Aspa {
                                    customer, providers
                                },
                                serial,
                                nb: now - 3600, na: now + 30 * DAY,
                                ee_key: 24 + ((step * 5 + k + j) % 24),
                                fault: None, salt: 0,
                            };
                            self.world.cas[ca].objs.push(obj);
                        }
                        detail = json!({"customer": customer, "objects": n,
                            "providers_each": size});
                        self.dirty.insert(ca);
                    }
                }
            }
            AspaChange => {
                // Replace the provider set of an existing ASPA (or create
                // one) choosing from a tiny family of sets so that sets
                // change and change back.
                let pool = gen::effective_pool(&self.world, ca);
                match pool.asn.first().copied() {
                    None => applied = false,
                    Some((lo, _)) => {
                        let sets: [&[u32]; 4] = [
                            &[65001], &[65001, 65002], &[65003],
                            &[65001, 65002, 65003]
                        ];
                        let providers = rng.pick(&sets).to_vec();
                        let serial = self.world.serial();
                        let spec = &mut self.world.cas[ca];
                        let existing = spec.objs.iter().position(|o| {
                            matches!(o.payload, crate::world::Payload::Aspa{..})
                                && o.fault.is_none()
                        });
                        match existing {
                            Some(idx) => {
                                let obj = &mut spec.objs[idx];
                                if let crate::world::Payload::Aspa {
                                    providers: ref mut p, ..
                                } = obj.payload {
                                    *p = providers.clone();
                                }
                                obj.serial = serial;
                                obj.nb = now - 3600;
                                obj.na = now + 30 * DAY;
                                detail = json!({"name": obj.name,
                                    "providers": providers});
                            }
                            None => {
                                let obj = crate::world::ObjSpec {
                                    name: format!("chg{}-{}.asa", step, k),
                                    payload: crate::world::Payload::Aspa {
                                        customer: lo, providers: providers.clone()
                                    },
                                    serial,
                                    nb: now - 3600, na: now + 30 * DAY,
                                    ee_key: 24 + ((step + k) % 24),
                                    fault: None, salt: 0,
                                };
                                detail = json!({"name": obj.name,
                                    "providers": providers});
                                spec.objs.push(obj);
                            }
                        }
                        self.dirty.insert(ca);
                    }
                }
            }
            MoveCa => {
                // The CA moves to another repository: new SIA in a
                // re-issued certificate, the old location is abandoned.
                let parent = self.world.cas[ca].parent;
                match parent {
                    None => applied = false,
                    Some(parent) => {
                        let mut g = Gen::new(rng, self.profile.gen.clone(), now);
                        let (host, module) = g.pick_location();
                        let rrdp = g.rng.chance(50, 100).then(|| {
                            g.rng.usize(self.world.repos.len())
                        });
                        let serial = self.world.serial();
                        let spec = &mut self.world.cas[ca];
                        detail = json!({
                            "from": spec.repo_uri(),
                            "to": format!("rsync://{host}/{module}/{}/", spec.dir),
                            "rrdp": rrdp,
                        });
                        spec.host = host;
                        spec.module = module;
                        spec.rrdp = rrdp;
                        spec.cert.serial = serial;
                        self.dirty.insert(parent);
                        self.dirty.insert(ca);
                        // Children's certificates point at this CA's CRL and
                        // certificate: re-issue them too.
                        for child in self.world.cas[ca].children.clone() {
                            self.dirty.insert(child);
                        }
                    }
                }
            }
            CorruptArchive => {
                // Handled right before the run.
                self.corrupt_archive = true;
            }
            TalRekey => {
                // The configured TAL now carries another key (a replaced
                // TAL); the servers keep publishing the old certificate.
                let t = rng.usize(self.world.tals.len());
                let root = self.world.tals[t].ca;
                let old = self.world.tals[t].key;
                let new = if old == self.world.cas[root].key {
                    (old + 13) % 24
                } else {
                    self.world.cas[root].key
                };
                self.world.tals[t].key = new;
                self.write_tals();
                // The engine reads TALs when created.
                self.engine = None;
                detail = json!({"tal": t, "matches_ta": new == self.world.cas[root].key});
            }
            TaFault => {
                let t = rng.usize(self.world.tals.len());
                let fault = *rng.pick(&[
                    TaFaultKind::Unreachable, TaFaultKind::Garbage,
                    TaFaultKind::OtherKey, TaFaultKind::Expired,
                ]);
                detail = json!({"tal": t, "fault": format!("{fault:?}")});
                self.ta_fault.insert(t, fault);
            }
        }
        if applied {
            self.stats.fault(&format!("{kind:?}"));
            self.note(format!("step {step} op {k}: {kind:?} ca{ca} {detail}"));
            self.ops.push(json!({
                "step": step, "k": k, "op": format!("{kind:?}"), "ca": ca,
                "detail": detail
            }));
        }
    }

    /// May an RRDP failure be injected for this repository now?
    ///
    /// Only if the outcome (current / stale / unavailable) does not depend
    /// on the randomly chosen best-before time of the local copy.
    fn rrdp_fail_ok(&self, notify: &str) -> bool {
        match self.state.rrdp_copy.get(notify) {
            None => true,
            Some(copy) => {
                let age = self.now - copy.touched;
                let max = std::cmp::max(
                    2 * self.cfg.refresh, self.cfg.fallback_time
                );
                age < self.cfg.refresh || age > max
            }
        }
    }
}


//------------ Publishing, servers, real run ---------------------------------

impl Sim {
    fn publish(&mut self, step: usize) {
        let dirty = std::mem::take(&mut self.dirty);
        for ca in dirty {
            let mut rng = Rng::new(mix(&[self.seed, 400, step as u64, ca as u64]));
            let now = self.now;
            let first = self.history[ca].is_empty();
            let serial = self.world.serial();
            let hold_number = self.hold_number.remove(&ca);
            let hold_this = self.hold_this_update.remove(&ca);
            let time_fault = self.time_faults.remove(&ca);
            let spec = &mut self.world.cas[ca];
            if !first {
                if !hold_number {
                    spec.mft_number += 1 + rng.below(3);
                }
                if !hold_this {
                    spec.this_update = now;
                }
                spec.crl_number += 1;
                spec.crl_this_update = now;
            }
            spec.next_update = now + rng.range(2, 72) * 3600;
            // The CRL may run out before or after the manifest.
            spec.crl_next_update = (
                spec.next_update + rng.range(-40, 6) * 1800
            ).max(now + 1800);
            spec.mft_ee_serial = serial;
            spec.mft_ee_nb = spec.this_update.min(now) - 300;
            spec.mft_ee_na = spec.next_update + rng.range(0, 48) * 3600;
            match time_fault {
                Some(OpKind::MftStale) => {
                    spec.next_update = now - rng.range(60, 7200);
                    spec.this_update = spec.this_update.min(
                        spec.next_update - 3600
                    );
                    if !first && !hold_this {
                        // Keep thisUpdate increasing so that staleness is
                        // the only issue.
                        let prev = self.history[ca].last().unwrap()
                            .info.this_update;
                        if spec.this_update <= prev {
                            spec.this_update = prev + 1;
                        }
                        if spec.this_update >= spec.next_update {
                            spec.next_update = spec.this_update + 1;
                        }
                        if spec.next_update >= now {
                            // Cannot be made stale consistently; give up on
                            // the fault.
                            spec.next_update = now + 7200;
                        }
                    }
                    spec.mft_ee_nb = spec.this_update - 300;
                }
                Some(OpKind::MftPremature) => {
                    spec.this_update = now + rng.range(120, 7200);
                    spec.next_update = spec.this_update + DAY;
                    spec.mft_ee_na = spec.next_update + 3600;
                }
                Some(OpKind::CrlStale) => {
                    spec.crl_next_update = now - rng.range(60, 7200);
                    spec.crl_this_update = spec.crl_next_update - 3600;
                }
                Some(OpKind::ExpireMftEe) => {
                    spec.mft_ee_na = now - rng.range(60, 3600);
                    spec.mft_ee_nb = spec.mft_ee_na - DAY;
                }
                _ => { }
            }
            let version = Compiler {
                world: &self.world, files: &mut self.files,
                cache: &mut self.cache,
            }.point(ca);
            self.history[ca].push(Rc::new(version));
        }
    }

    fn served(&self, ca: usize) -> Option<Rc<PointVersion>> {
        let hist = &self.history[ca];
        match self.replay.get(&ca) {
            Some(idx) => hist.get(*idx).cloned(),
            None => hist.last().cloned()
        }
    }

    /// Compiles the TA certificate served for a TAL in this step.
    fn ta_file(&mut self, t: usize) -> Option<FileId> {
        let root = self.world.tals[t].ca;
        match self.ta_fault.get(&t).copied() {
            None => {
                Some(Compiler {
                    world: &self.world, files: &mut self.files,
                    cache: &mut self.cache,
                }.ca_cert(root))
            }
            Some(TaFaultKind::Unreachable) => None,
            Some(TaFaultKind::Garbage) => {
                let mut world = self.world.clone();
                world.cas[root].cert.fault = Some(SigFault::Garbage);
                Some(Compiler {
                    world: &world, files: &mut self.files,
                    cache: &mut self.cache,
                }.ca_cert(root))
            }
            Some(TaFaultKind::OtherKey) => {
                let mut world = self.world.clone();
                world.cas[root].key = (world.cas[root].key + 11) % 24;
                Some(Compiler {
                    world: &world, files: &mut self.files,
                    cache: &mut self.cache,
                }.ca_cert(root))
            }
            Some(TaFaultKind::Expired) => {
                let mut world = self.world.clone();
                world.cas[root].cert.nb = self.now - 100 * DAY;
                world.cas[root].cert.na = self.now - 100;
                Some(Compiler {
                    world: &world, files: &mut self.files,
                    cache: &mut self.cache,
                }.ca_cert(root))
            }
        }
    }

    fn build_servers(&mut self, step: usize) -> Transport {
        let mut transport = Transport::default();
        let mut rng = Rng::new(mix(&[self.seed, 500, step as u64]));

        // Publication points.
        let mut rrdp_objects: Vec<BTreeMap<String, FileId>> =
            vec![BTreeMap::new(); self.world.repos.len()];
        for ca in 0..self.world.cas.len() {
            let Some(version) = self.served(ca) else { continue };
            let module = model::module_of(&version.repo_uri);
            let tree = transport.rsync_tree.entry(module).or_default();
            for (uri, id) in &version.published {
                tree.insert(uri.clone(), *id);
            }
            if let Some(repo) = self.world.cas[ca].rrdp {
                for (uri, id) in &version.published {
                    rrdp_objects[repo].insert(uri.clone(), *id);
                }
            }
        }

        // Trust anchor certificates.
        let mut routes: BTreeMap<String, Route> = BTreeMap::new();
        for t in 0..self.world.tals.len() {
            let file = self.ta_file(t);
            if let Some(file) = file {
                self.ta_files.insert(t, file);
            }
            for uri in self.world.tals[t].uris.clone() {
                if uri.starts_with("https://") {
                    if let Some(id) = file {
                        let mut route = Route::ok(
                            self.files.get(id).bytes.clone()
                        );
                        route.content_length = rng.chance(70, 100);
                        route.chunk = *rng.pick(&[7, 100, 16384]);
                        routes.insert(uri.clone(), route);
                        transport.https_ta.insert(uri, id);
                    }
                }
                else if let Some(id) = file {
                    transport.rsync_tree.entry(model::module_of(&uri))
                        .or_default().insert(uri, id);
                }
            }
        }

        // Write the rsync trees.
        let known: BTreeSet<String> = self.rsync.modules().into_iter().collect();
        for (module, tree) in &transport.rsync_tree {
            let name = module.trim_start_matches("rsync://")
                .trim_end_matches('/').to_string();
            let files: BTreeMap<String, ([u8; 32], Bytes)> = tree.iter().map(
                |(uri, id)| {
                    let info = self.files.get(*id);
                    (
                        uri[module.len()..].to_string(),
                        (info.hash, info.bytes.clone())
                    )
                }
            ).collect();
            self.rsync.set_module(&name, &files);
            let mode = if self.rsync_fail.contains(module) {
                RsyncMode::Fail(*rng.pick(&[1, 10, 12, 23, 30, 35]))
            }
            else if rng.chance(10, 100) {
                RsyncMode::Noisy
            }
            else {
                RsyncMode::Ok
            };
            self.rsync.set_mode(&name, &mode);
        }
        for name in known {
            let module = format!("rsync://{name}/");
            if !transport.rsync_tree.contains_key(&module) {
                self.rsync.remove_module(&name);
            }
        }
        transport.rsync_fail = self.rsync_fail.clone();

        // RRDP.
        for (r, objects) in rrdp_objects.into_iter().enumerate() {
            let notify = self.world.repos[r].notify_uri();
            let bytes: BTreeMap<String, Bytes> = objects.iter().map(
                |(uri, id)| (uri.clone(), self.files.get(*id).bytes.clone())
            ).collect();
            self.rrdp[r].publish(bytes);
            if self.rrdp_fail.contains(&notify) {
                let style = rng.below(5);
                let mut good = self.rrdp[r].routes();
                match style {
                    0 => { good.insert(notify.clone(), Route::status(500)); }
                    1 => { good.insert(notify.clone(), Route::status(404)); }
                    2 => {
                        good.insert(notify.clone(), Route::ok(
                            Bytes::from_static(b"<notification this is not xml")
                        ));
                    }
                    3 => {
                        let mut route = good[&notify].clone();
                        route.fail_after = Some(route.body.len() / 2);
                        route.etag = None;
                        good.insert(notify.clone(), route);
                    }
                    _ => {
                        for route in good.values_mut() {
                            *route = Route::status(503);
                        }
                    }
                }
                self.stats.fault(&format!("rrdp-fail-style-{style}"));
                routes.extend(good);
            }
            else {
                let mut good = self.rrdp[r].routes();
                for route in good.values_mut() {
                    route.content_length = rng.chance(70, 100);
                    route.chunk = *rng.pick(&[61, 1000, 16384]);
                }
                routes.extend(good);
            }
            transport.rrdp_objects.insert(notify, objects);
        }
        transport.rrdp_fail = self.rrdp_fail.clone();
        self.http.set_routes(routes);
        let _ = self.rsync.take_log();
        let _ = self.http.take_log();
        transport
    }

    pub fn config(&self, update: bool) -> Config {
        let mut config = Config::default_with_paths(
            Default::default(), self.scratch.join("cache")
        );
        let _ = update;
        config.no_rir_tals = true;
        config.extra_tals_dir = Some(self.scratch.join("tals"));
        if self.exceptions_json.is_some() {
            config.exceptions = vec![self.scratch.join("exceptions.json")];
        }
        let pol = |p: Policy| match p {
            Policy::Reject => FilterPolicy::Reject,
            Policy::Warn => FilterPolicy::Warn,
            Policy::Accept => FilterPolicy::Accept,
        };
        config.stale = pol(self.cfg.stale);
        config.unsafe_vrps = pol(self.cfg.unsafe_vrps);
        config.limit_v4_len = self.cfg.limit_v4;
        config.limit_v6_len = self.cfg.limit_v6;
        config.allow_dubious_hosts = self.cfg.allow_dubious;
        config.disable_rsync = !self.cfg.rsync_on;
        config.disable_rrdp = !self.cfg.rrdp_on;
        config.rsync_command = std::env::current_exe().unwrap()
            .to_string_lossy().into_owned();
        config.rsync_args = Some(vec![
            format!("--sim-root={}", self.rsync.root.display())
        ]);
        config.rsync_timeout = None;
        config.rrdp_fallback = match self.cfg.fallback {
            Fallback::Never => FallbackPolicy::Never,
            Fallback::Stale => FallbackPolicy::Stale,
            Fallback::New => FallbackPolicy::New,
        };
        config.rrdp_fallback_time = std::time::Duration::from_secs(
            self.cfg.fallback_time as u64
        );
        config.refresh = std::time::Duration::from_secs(self.cfg.refresh as u64);
        config.max_object_size = self.cfg.max_object_size;
        config.max_ca_depth = self.cfg.max_depth;
        config.enable_bgpsec = self.cfg.bgpsec;
        config.enable_aspa = self.cfg.aspa;
        config.dirty_repository = self.cfg.dirty;
        config.validation_threads = 1;
        for (file, label) in &self.tal_labels {
            config.tal_labels.insert(file.clone(), label.clone());
        }
        config.min_refresh = self.min_refresh.map(|secs| {
            std::time::Duration::from_secs(secs as u64)
        });
        config.log_repository_issues = self.profile.hostile_labels;
        config
    }

    fn real_run(
        &mut self, _step: usize
    ) -> Result<(PayloadSnapshot, (u32, u32)), String> {
        let config = self.config(true);
        if self.engine.is_none() || !self.reuse_engine
            || self.crash_step.is_some()
        {
            self.engine = Some(Engine::new(&config, true).map_err(|_| {
                "Engine::new failed".to_string()
            })?);
        }
        let engine = self.engine.as_ref().unwrap();
        if self.profile.via_server {
            if self.server.is_none() {
                self.server = Some(ServerState::new(&config));
            }
            let server = self.server.as_mut().unwrap();
            let exceptions = LocalExceptions::load(&config, false).map_err(|_| {
                "loading exceptions failed".to_string()
            })?;
            routinator::operation::Server::verif_process_once(
                &config, engine, &server.history, &mut server.notify,
                &exceptions, false
            ).map_err(|err| {
                format!("process failed (fatal={})", err.is_fatal())
            })?;
            let snapshot = server.history.read().current().unwrap();
            server.runs += 1;
            let counts = server.history.read().metrics().map(|m| {
                (m.publication.valid_points, m.publication.rejected_points)
            }).unwrap_or((0, 0));
            return Ok(((*snapshot).clone(), counts))
        }
        let (report, mut metrics) = ValidationReport::process(
            engine, &config, false
        ).map_err(|err| {
            format!("process failed (fatal={})", err.is_fatal())
        })?;
        let exceptions = LocalExceptions::load(&config, false).map_err(|_| {
            "loading exceptions failed".to_string()
        })?;
        let snapshot = report.into_snapshot(&exceptions, &mut metrics);
        let counts = (
            metrics.publication.valid_points,
            metrics.publication.rejected_points
        );
        Ok((snapshot, counts))
    }
}


//------------ Server mode --------------------------------------------------

pub struct HistVersion {
    pub serial: u32,
    pub data: BTreeMap<String, String>,
    pub snapshot: Arc<PayloadSnapshot>,
}

pub struct ServerState {
    pub versions: Vec<HistVersion>,
    pub changes: usize,
    pub history: routinator::payload::SharedHistory,
    pub notify: rpki::rtr::server::NotifySender,
    pub http: routinator::http::verif_api::State,
    pub runs: u64,
}

impl ServerState {
    fn new(config: &Config) -> Self {
        let history = routinator::payload::SharedHistory::from_config(config);
        let notify = rpki::rtr::server::NotifySender::new();
        let http = routinator::http::verif_api::State::new(
            config, history.clone(),
            Arc::new(routinator::metrics::RtrServerMetrics::new(true)),
            None, notify.clone()
        );
        ServerState {
            versions: Vec::new(), changes: 0, history, notify, http, runs: 0
        }
    }

    fn get(&self, uri: &str) -> (u16, Vec<u8>) {
        use http_body_util::BodyExt;
        let (parts, _) = http::Request::builder().uri(uri).method("GET")
            .body(()).unwrap().into_parts();
        let response = futures::executor::block_on(self.http.handle_request(
            routinator::http::verif_api::Request::new(parts, None)
        )).into_hyper().unwrap();
        let status = response.status().as_u16();
        let body = futures::executor::block_on(response.into_body().collect())
            .unwrap().to_bytes().to_vec();
        (status, body)
    }
}

/// Checks a document against the Prometheus text exposition format.
pub fn check_prometheus(text: &str) -> Result<usize, String> {
    let mut samples = 0;
    for (n, line) in text.split('\n').enumerate() {
        if line.is_empty() || line.starts_with('#') {
            continue
        }
        let bytes = line.as_bytes();
        let mut i = 0;
        // metric name
        while i < bytes.len() && (bytes[i].is_ascii_alphanumeric()
            || bytes[i] == b'_' || bytes[i] == b':')
        { i += 1 }
        if i == 0 {
            return Err(format!("line {}: no metric name: {line:?}", n + 1))
        }
        if i < bytes.len() && bytes[i] == b'{' {
            i += 1;
            loop {
                while i < bytes.len() && (bytes[i] == b' ' || bytes[i] == b',') {
                    i += 1
                }
                if i < bytes.len() && bytes[i] == b'}' { i += 1; break }
                let start = i;
                while i < bytes.len() && (bytes[i].is_ascii_alphanumeric()
                    || bytes[i] == b'_')
                { i += 1 }
                if i == start {
                    return Err(format!(
                        "line {}: bad label name at column {i}: {line:?}", n + 1
                    ))
                }
                if i + 1 >= bytes.len() || bytes[i] != b'=' || bytes[i + 1] != b'"' {
                    return Err(format!(
                        "line {}: expected =\" at column {i}: {line:?}", n + 1
                    ))
                }
                i += 2;
                loop {
                    if i >= bytes.len() {
                        return Err(format!(
                            "line {}: unterminated label value: {line:?}", n + 1
                        ))
                    }
                    match bytes[i] {
                        b'\\' => {
                            if i + 1 >= bytes.len() || !matches!(
                                bytes[i + 1], b'\\' | b'"' | b'n'
                            ) {
                                return Err(format!(
                                    "line {}: bad escape in label value: \
                                     {line:?}", n + 1
                                ))
                            }
                            i += 2;
                        }
                        b'"' => { i += 1; break }
                        _ => i += 1,
                    }
                }
            }
        }
        if i >= bytes.len() || bytes[i] != b' ' {
            return Err(format!(
                "line {}: expected a space before the value: {line:?}", n + 1
            ))
        }
        let rest = line[i + 1..].trim();
        let value = rest.split(' ').next().unwrap_or("");
        if value.parse::<f64>().is_err()
            && !matches!(value, "NaN" | "+Inf" | "-Inf")
        {
            return Err(format!("line {}: bad value {value:?}: {line:?}", n + 1))
        }
        samples += 1;
    }
    Ok(samples)
}


//------------ Checking ------------------------------------------------------

pub fn snapshot_to_set(snapshot: &PayloadSnapshot) -> (PayloadSet, Vec<String>) {
    let mut res = PayloadSet::default();
    let mut dups = Vec::new();
    for (origin, _) in snapshot.origins() {
        let prefix = origin.prefix.prefix();
        let pfx = match prefix.addr() {
            std::net::IpAddr::V4(addr) => {
                Pfx::V4(P4::new(u32::from(addr), prefix.len()))
            }
            std::net::IpAddr::V6(addr) => {
                Pfx::V6(P6::new(u128::from(addr), prefix.len()))
            }
        };
        let item = (
            origin.asn.into_u32(), pfx, origin.prefix.resolved_max_len()
        );
        if !res.origins.insert(item) {
            dups.push(format!("{item:?}"));
        }
    }
    for (key, _) in snapshot.router_keys() {
        let item = (
            key.key_identifier.as_slice().to_vec(),
            key.asn.into_u32(),
            key.key_info.as_slice().to_vec(),
        );
        if !res.keys.insert(item.clone()) {
            dups.push(format!("key {:?}", item.1));
        }
    }
    for (aspa, _) in snapshot.aspas() {
        let providers: BTreeSet<u32> = aspa.providers.iter().map(
            |asn| asn.into_u32()
        ).collect();
        if res.aspas.insert(aspa.customer.into_u32(), providers).is_some() {
            dups.push(format!("aspa {}", aspa.customer));
        }
    }
    (res, dups)
}

impl Expect {
    pub fn rsync_modules_accessed(&self) -> BTreeSet<String> {
        self.rsync_modules.clone()
    }
}

impl Sim {
    /// Applies the local exceptions to an expected set.
    fn apply_slurm(&self, set: &PayloadSet) -> PayloadSet {
        let Some(slurm) = self.slurm.as_ref() else { return set.clone() };
        let mut res = set.clone();
        res.origins.retain(|(asn, pfx, _)| {
            if slurm.filter_asn.contains(asn) {
                return false
            }
            if let Pfx::V4(p) = pfx {
                if slurm.filter_v4.iter().any(|f| f.covers(*p)) {
                    return false
                }
            }
            true
        });
        for item in &slurm.assert_origins {
            res.origins.insert(*item);
        }
        res
    }

    fn check_run(
        &mut self, step: usize, expect: &Expect, snapshot: &PayloadSnapshot,
        _transport: &Transport,
    ) {
        self.check_transport_log(step, expect);
        let (real, dups) = snapshot_to_set(snapshot);
        let strict = self.apply_slurm(&expect.strict);
        let loose = self.apply_slurm(&expect.loose);

        // Abandoned-only items.
        let mut abandoned = PayloadSet::default();
        for outcome in &expect.outcomes {
            if let Some(items) = outcome.abandoned_items.as_ref() {
                for item in &items.origins {
                    if !strict.origins.contains(item) {
                        abandoned.origins.insert(*item);
                    }
                }
                for item in &items.keys {
                    if !strict.keys.contains(item) {
                        abandoned.keys.insert(item.clone());
                    }
                }
                for (customer, providers) in &items.aspas {
                    let strict_providers = strict.aspas.get(customer);
                    for provider in providers {
                        if !strict_providers.map(|s| s.contains(provider))
                            .unwrap_or(false)
                        {
                            abandoned.aspas.entry(*customer).or_default()
                                .insert(*provider);
                        }
                    }
                }
                if !items.is_empty() {
                    self.stats.probe("abandoned-with-payload");
                }
            }
        }

        // C02: everything expected is there.
        let missing = strict.minus(&real);
        // ASPA comparison is whole-set; handle below for C01.
        if !missing.is_empty() {
            self.violation("C02", "dropped", step, format!(
                "expected payload missing from served set: {missing:?}"
            ));
        }

        // C01: everything served is traceable.
        let mut untraceable = Vec::new();
        for item in &real.origins {
            if !loose.origins.contains(item) {
                untraceable.push(format!("roa AS{} {}-{}", item.0, item.1, item.2));
            }
        }
        for item in &real.keys {
            if !loose.keys.contains(item) {
                untraceable.push(format!("key AS{}", item.1));
            }
        }
        for (customer, providers) in &real.aspas {
            match loose.aspas.get(customer) {
                Some(all) if providers.is_subset(all) => { }
                _ => untraceable.push(format!("aspa AS{customer} {providers:?}")),
            }
        }
        if !untraceable.is_empty() {
            self.violation("C01", "unvalidated", step, format!(
                "served payload without valid source: {untraceable:?}"
            ));
        }

        // C03: nothing from an abandoned update.
        let mut mixed = Vec::new();
        for item in &real.origins {
            if abandoned.origins.contains(item) {
                mixed.push(format!("roa AS{} {}-{}", item.0, item.1, item.2));
            }
        }
        for item in &real.keys {
            if abandoned.keys.contains(item) {
                mixed.push(format!("key AS{}", item.1));
            }
        }
        for (customer, providers) in &real.aspas {
            if let Some(bad) = abandoned.aspas.get(customer) {
                let leaked: Vec<&u32> = providers.iter().filter(|p| {
                    bad.contains(*p)
                }).collect();
                if !leaked.is_empty() {
                    mixed.push(format!(
                        "aspa AS{customer} providers {leaked:?}"
                    ));
                }
            }
        }
        if !mixed.is_empty() {
            self.violation("C03", "mixed", step, format!(
                "payload of an abandoned update served: {mixed:?}"
            ));
        }

        // C09: exact composition.
        let extra = real.minus(&strict);
        if !extra.is_empty() || !missing.is_empty() || !dups.is_empty() {
            self.violation("C09", "composition", step, format!(
                "served set differs from documented composition: \
                 extra {extra:?} missing {missing:?} duplicates {dups:?}"
            ));
        }

        // Focus property: any mismatch not explained by an abandoned update.
        if let Some(focus) = self.profile.focus {
            let unexplained: Vec<String> = real.origins.iter().filter(|i| {
                !strict.origins.contains(*i) && !abandoned.origins.contains(*i)
            }).map(|i| format!("roa AS{} {}-{}", i.0, i.1, i.2)).chain(
                real.keys.iter().filter(|i| {
                    !strict.keys.contains(*i) && !abandoned.keys.contains(*i)
                }).map(|i| format!("key AS{}", i.1))
            ).chain(
                real.aspas.iter().filter(|(c, p)| {
                    strict.aspas.get(*c) != Some(*p)
                }).map(|(c, p)| format!("aspa AS{c} {p:?}"))
            ).collect();
            if !missing.is_empty() || !unexplained.is_empty() {
                self.violation(focus, "mismatch", step, format!(
                    "served set differs from the model: unexpected \
                     {unexplained:?} missing {missing:?}"
                ));
            }
        }

        // C08: unsafe VRP filter.
        let mut rejected_v4: Vec<P4> = Vec::new();
        let mut rejected_v6: Vec<P6> = Vec::new();
        for outcome in &expect.outcomes {
            if outcome.used == Used::Rejected {
                rejected_v4.extend(outcome.res.v4.iter().filter(|p| p.len != 0).copied());
                rejected_v6.extend(outcome.res.v6.iter().filter(|p| p.len != 0).copied());
            }
        }
        if !rejected_v4.is_empty() || !rejected_v6.is_empty() {
            self.stats.probe("rejected-points");
        }
        for outcome in &expect.outcomes {
            if outcome.used != Used::Rejected { continue }
            let all4 = outcome.res.v4.iter().any(|p| p.len == 0);
            let all6 = outcome.res.v6.iter().any(|p| p.len == 0);
            let some4: Vec<P4> = outcome.res.v4.iter().filter(|p| p.len != 0)
                .copied().collect();
            let some6: Vec<P6> = outcome.res.v6.iter().filter(|p| p.len != 0)
                .copied().collect();
            if all4 && !some6.is_empty() {
                self.stats.probe("rejected-all-v4-some-v6");
                if expect.loose.origins.iter().any(|(_, pfx, _)| {
                    matches!(pfx, Pfx::V6(p) if some6.iter().any(|r| r.overlaps(*p)))
                }) {
                    self.stats.probe("vrp-in-v6-of-rejected-all-v4");
                }
            }
            if all6 && !some4.is_empty() {
                self.stats.probe("rejected-all-v6-some-v4");
                if expect.loose.origins.iter().any(|(_, pfx, _)| {
                    matches!(pfx, Pfx::V4(p) if some4.iter().any(|r| r.overlaps(*p)))
                }) {
                    self.stats.probe("vrp-in-v4-of-rejected-all-v6");
                }
            }
        }
        for outer in &rejected_v4 {
            for inner in &rejected_v4 {
                if outer != inner && outer.covers(*inner) {
                    self.stats.probe("nested-rejected-pair");
                    if expect.loose.origins.iter().any(|(_, pfx, _)| {
                        matches!(pfx, Pfx::V4(p) if outer.covers(*p)
                            && p.first() > inner.last())
                    }) {
                        self.stats.probe("vrp-behind-nested-rejected");
                    }
                }
            }
        }
        let overlaps = |pfx: &Pfx| match pfx {
            Pfx::V4(p) => rejected_v4.iter().any(|r| r.overlaps(*p)),
            Pfx::V6(p) => rejected_v6.iter().any(|r| r.overlaps(*p)),
        };
        let asserted: BTreeSet<(u32, Pfx, u8)> = self.slurm.as_ref().map(|s| {
            s.assert_origins.iter().copied().collect()
        }).unwrap_or_default();
        if self.cfg.unsafe_vrps == Policy::Reject {
            let bad: Vec<_> = real.origins.iter().filter(|item| {
                overlaps(&item.1) && !asserted.contains(item)
            }).collect();
            if !bad.is_empty() {
                self.violation("C08", "unsafe-served", step, format!(
                    "VRPs overlapping rejected CA resources served: {bad:?}"
                ));
            }
            let n_filtered = expect.loose.origins.iter().filter(|item| {
                overlaps(&item.1)
            }).count();
            if n_filtered > 0 {
                self.stats.probe("unsafe-filtered");
            }
        }
        else {
            let dropped: Vec<_> = strict.origins.iter().filter(|item| {
                overlaps(&item.1) && !real.origins.contains(item)
            }).collect();
            if !dropped.is_empty() {
                self.violation("C08", "unsafe-dropped", step, format!(
                    "VRPs removed although unsafe-vrps is not reject: {dropped:?}"
                ));
            }
        }

        // C39: refresh bound.
        if let Some(refresh) = snapshot.refresh() {
            if let Some(bound) = expect.refresh_bound {
                let refresh = refresh.timestamp();
                if refresh > bound {
                    self.violation("C39", "refresh-late", step, format!(
                        "snapshot refresh {refresh} later than earliest \
                         expiry {bound} on contributing chain"
                    ));
                }
            }
        }
        else if expect.refresh_bound.is_some() && !real.is_empty()
            && real.origins.iter().any(|i| !asserted.contains(i))
        {
            self.violation("C39", "refresh-missing", step,
                "snapshot with validated payload has no refresh time".into()
            );
        }

        self.check_server_documents(step, snapshot, expect.refresh_bound);

        // Signature of the case for distinctness accounting.
        let mut used = [0u32; 3];
        for outcome in &expect.outcomes {
            match outcome.used {
                Used::New => used[0] += 1,
                Used::Stored => used[1] += 1,
                Used::Rejected => used[2] += 1,
            }
        }
        self.stats.signature.push_str(&format!(
            "|{}:{}:{}:{}", used[0], used[1], used[2], real.len()
        ));
        self.note(format!(
            "step {step}: run ok: served {} items; points new/stored/rejected \
             {}/{}/{}",
            real.len(), used[0], used[1], used[2]
        ));
    }

    /// C07 (and C01): exactly the publication points the model expects
    /// were processed, each once.
    fn check_points(&mut self, step: usize, expect: &Expect, counts: (u32, u32)) {
        let valid = expect.outcomes.iter().filter(|o| {
            o.used != Used::Rejected
        }).count() as u32;
        let rejected = expect.outcomes.iter().filter(|o| {
            o.used == Used::Rejected
        }).count() as u32;
        if counts != (valid, rejected) {
            self.violation("C07", "point-count", step, format!(
                "the run processed {} valid and {} rejected publication \
                 points, the model expects {valid} and {rejected} (a \
                 certificate that must contribute nothing was followed, or \
                 a CA was skipped)", counts.0, counts.1
            ));
        }
    }

    /// C12/C13/C14 with ASPA payload: lagging clients against the history
    /// kept by the server-mode runs.
    fn check_history_clients(&mut self, step: usize) {
        use rpki::rtr::payload::{Action, PayloadRef};
        use rpki::rtr::server::{PayloadDiff, PayloadSet, PayloadSource};
        use rpki::rtr::state::{Serial, State};
        let Some(server) = self.server.as_mut() else { return };
        fn entry(p: PayloadRef) -> (String, String) {
            match p {
                PayloadRef::Origin(o) => (format!(
                    "o:AS{}:{}/{}-{}", o.asn.into_u32(), o.prefix.addr(),
                    o.prefix.prefix_len(), o.prefix.resolved_max_len()
                ), String::new()),
                PayloadRef::RouterKey(k) => (format!(
                    "k:AS{}:{}", k.asn.into_u32(), k.key_identifier
                ), String::new()),
                PayloadRef::Aspa(a) => (
                    format!("a:AS{}", a.customer.into_u32()),
                    format!("{:?}", a.providers.iter().map(|x| x.into_u32())
                        .collect::<Vec<_>>())
                ),
            }
        }
        let mut problems: Vec<(&'static str, &'static str, String)> = Vec::new();
        let (state, mut set) = server.history.full();
        let mut data = BTreeMap::new();
        while let Some(item) = set.next() {
            let (k, v) = entry(item);
            data.insert(k, v);
        }
        let serial_now = u32::from(state.serial());
        let snapshot = server.history.read().current().unwrap();
        let first = server.versions.is_empty();
        let changed = server.versions.last().map(|v| v.data != data)
            .unwrap_or(false);
        if let Some(last) = server.versions.last() {
            let want = last.serial.wrapping_add(changed as u32);
            if serial_now != want {
                problems.push(("C14", "serial", format!(
                    "serial is {serial_now} after a run that {} the data \
                     set (previous serial {})",
                    if changed { "changed" } else { "did not change" },
                    last.serial
                )));
            }
        }
        if changed { server.changes += 1; }
        if first || changed {
            server.versions.push(HistVersion {
                serial: serial_now, data: data.clone(), snapshot: snapshot.clone()
            });
        }
        let session = server.history.read().session() as u16;
        let keep = 10usize;
        let n_must = keep.min(server.changes) as u32;
        for version in &server.versions {
            let lag = serial_now.wrapping_sub(version.serial);
            let res = server.history.diff(
                State::from_parts(session, Serial(version.serial))
            );
            match res {
                None => {
                    if lag == 0 || lag < n_must {
                        problems.push(("C13", "refused-retained", format!(
                            "client at serial {} (current {serial_now}) refused",
                            version.serial
                        )));
                    }
                }
                Some((state, mut diff)) => {
                    let mut actions = Vec::new();
                    while let Some((p, action)) = diff.next() {
                        actions.push((entry(p), action));
                    }
                    let mut applied = version.data.clone();
                    for ((k, v), action) in &actions {
                        match action {
                            Action::Announce => { applied.insert(k.clone(), v.clone()); }
                            Action::Withdraw => { applied.remove(k); }
                        }
                    }
                    if applied != data || u32::from(state.serial()) != serial_now {
                        problems.push(("C13", "inexact", format!(
                            "change set from serial {} does not lead to the \
                             current data (serial {serial_now})", version.serial
                        )));
                    }
                    if lag > 0 {
                        let direct = routinator::payload::PayloadDelta::construct(
                            &version.snapshot, &snapshot,
                            Serial(serial_now.wrapping_sub(1))
                        );
                        let direct: Vec<((String, String), Action)> = match &direct {
                            Some(delta) => delta.actions().map(|(p, a)| {
                                (entry(p), a)
                            }).collect(),
                            None => Vec::new(),
                        };
                        if lag >= 2 { self.stats.probe("aspa-merged-diff-checked"); }
                        if direct != actions {
                            problems.push(("C12", "merge-differs", format!(
                                "served change set {} -> {serial_now} \
                                 ({:?}) differs from the direct change set \
                                 ({:?})", version.serial,
                                actions.iter().map(|x| format!("{:?} {} {}", x.1, x.0.0, x.0.1)).collect::<Vec<_>>(),
                                direct.iter().map(|x| format!("{:?} {} {}", x.1, x.0.0, x.0.1)).collect::<Vec<_>>(),
                            )));
                        }
                    }
                }
            }
        }
        if server.versions.len() > 14 { server.versions.remove(0); }
        for (prop, class, msg) in problems {
            self.violation(prop, class, step, msg);
        }
    }

    /// C22 and C34: documents and scheduling of the server after a run.
    fn check_server_documents(
        &mut self, step: usize, snapshot: &PayloadSnapshot,
        model_bound: Option<i64>,
    ) {
        let Some(server) = self.server.as_ref() else { return };
        // C22
        let (status, body) = server.get("/api/v1/status");
        let mut problems: Vec<(&'static str, String)> = Vec::new();
        if status != 200 {
            problems.push(("status-code", format!("/api/v1/status -> {status}")));
        }
        else if let Err(err) = serde_json::from_slice::<serde_json::Value>(&body) {
            let text = String::from_utf8_lossy(&body);
            let col = err.column().saturating_sub(30);
            let line: String = text.lines().nth(err.line().saturating_sub(1))
                .unwrap_or("").chars().skip(col).take(80).collect();
            problems.push(("status-json", format!(
                "/api/v1/status is not valid JSON: {err}; near {line:?}"
            )));
        }
        let (status, body) = server.get("/metrics");
        if status != 200 {
            problems.push(("metrics-code", format!("/metrics -> {status}")));
        }
        else {
            match std::str::from_utf8(&body) {
                Ok(text) => {
                    if let Err(err) = check_prometheus(text) {
                        problems.push(("metrics-format", format!(
                            "/metrics violates the exposition format: {err}"
                        )));
                    }
                }
                Err(_) => problems.push(("metrics-utf8",
                    "/metrics is not UTF-8".into())),
            }
        }
        // C34
        let history = server.history.read();
        let wait = history.refresh_wait().as_secs() as i64;
        let refresh = self.cfg.refresh;
        let floor = self.min_refresh.unwrap_or(refresh);
        let ceil = refresh.max(self.min_refresh.unwrap_or(0));
        drop(history);
        if server.runs > 1 || true {
            if wait < floor || wait > ceil {
                problems.push(("C34-bounds", format!(
                    "next run scheduled in {wait}s, outside [{floor}, {ceil}] \
                     (refresh {refresh}, min-refresh {:?})", self.min_refresh
                )));
            }
            if let (Some(min), Some(expiry)) = (self.min_refresh, snapshot.refresh()) {
                let until = expiry.timestamp() - self.now;
                if until < refresh {
                    let want = until.max(min);
                    if wait != want {
                        problems.push(("C34-expiry", format!(
                            "data expires in {until}s (before refresh \
                             {refresh}s), min-refresh {min}s: next run \
                             scheduled in {wait}s, expected {want}s"
                        )));
                    }
                    self.stats.probe("expiry-before-refresh");
                }
            }
            // Independently of what the served snapshot says about its own
            // expiry: the model knows the earliest expiry on the chains of
            // the contributing objects; the run after next must not be
            // later than that (but never earlier than min-refresh).
            if let (Some(min), Some(bound)) = (self.min_refresh, model_bound) {
                let until = bound - self.now;
                if until < refresh {
                    let limit = until.max(min);
                    if wait > limit {
                        problems.push(("C34-expiry-late", format!(
                            "contributing objects expire in {until}s (before \
                             refresh {refresh}s), min-refresh {min}s: next \
                             run scheduled in {wait}s, later than {limit}s"
                        )));
                    }
                    self.stats.probe("model-expiry-before-refresh");
                }
            }
        }
        for (class, msg) in problems {
            let prop = if class.starts_with("C34") { "C34" } else { "C22" };
            self.violation(prop, class, step, msg);
        }
    }

    /// C31: no request to a dubious host unless allowed; and the fetches
    /// the model expects did happen.
    fn check_transport_log(&mut self, step: usize, expect: &Expect) {
        let rsync_log = self.rsync.take_log();
        let http_log = self.http.take_log();
        let mut fetched_modules = BTreeSet::new();
        for module in &rsync_log {
            let host = module.split('/').next().unwrap_or("");
            if model::is_dubious(host) {
                if self.cfg.allow_dubious {
                    self.stats.probe("dubious-fetch-allowed");
                }
                else {
                    self.violation("C31", "dubious-rsync", step, format!(
                        "rsync was started for module {module} although \
                         dubious hosts are not allowed"
                    ));
                }
            }
            if !fetched_modules.insert(module.clone()) {
                self.violation("C37", "double-fetch-seq", step, format!(
                    "rsync module {module} fetched twice in one run"
                ));
            }
        }
        for entry in &http_log {
            let host = entry.uri.split("://").nth(1).unwrap_or("")
                .split('/').next().unwrap_or("");
            let is_ta = self.world.tals.iter().any(|tal| {
                tal.uris.iter().any(|u| *u == entry.uri)
            });
            if model::is_dubious(host) && !is_ta {
                if self.cfg.allow_dubious {
                    self.stats.probe("dubious-fetch-allowed");
                }
                else {
                    self.violation("C31", "dubious-https", step, format!(
                        "HTTPS request to {} although dubious hosts are \
                         not allowed", entry.uri
                    ));
                }
            }
        }
        // The fetches the model expects.
        let want: BTreeSet<String> = expect.rsync_modules.iter().map(|m| {
            m.trim_start_matches("rsync://").trim_end_matches('/').to_string()
        }).collect();
        if want != fetched_modules {
            self.violation("C29", "rsync-fetch-set", step, format!(
                "rsync was used for {fetched_modules:?}, the model expects \
                 {want:?}"
            ));
        }
        let notified: BTreeSet<String> = http_log.iter().filter(|e| {
            e.uri.ends_with("/rrdp/notification.xml")
        }).map(|e| e.uri.clone()).collect();
        if notified != expect.rrdp_repos {
            self.violation("C29", "rrdp-fetch-set", step, format!(
                "RRDP notifications fetched for {notified:?}, the model \
                 expects {:?}", expect.rrdp_repos
            ));
        }
        if !self.cfg.allow_dubious && self.profile.gen.dubious_pct > 0 {
            self.stats.probe("dubious-filter-active");
        }
    }

    /// C04: the store holds exactly what the model says.
    fn check_store(&mut self, step: usize, _expect: &Expect) {
        use routinator::store::StoredPoint;
        let base = self.scratch.join("cache").join("stored");
        let mut on_disk: BTreeMap<String, (Bytes, Bytes, Vec<(String, Bytes)>)>
            = BTreeMap::new();
        let mut now_seen = BTreeMap::new();
        let mut stack = vec![base.join("rsync"), base.join("rrdp")];
        while let Some(dir) = stack.pop() {
            let Ok(read) = std::fs::read_dir(&dir) else { continue };
            let mut entries: Vec<_> = read.filter_map(|e| e.ok()).collect();
            entries.sort_by_key(|e| e.file_name());
            for entry in entries {
                let path = entry.path();
                if path.is_dir() {
                    stack.push(path);
                    continue
                }
                let Some(mut point) = StoredPoint::load_quietly(path.clone())
                else {
                    self.violation("C04", "unreadable", step, format!(
                        "stored point {} does not load", path.display()
                    ));
                    continue
                };
                let Some(manifest) = point.manifest().cloned() else {
                    continue
                };
                let mut objects = Vec::new();
                for item in &mut point {
                    match item {
                        Ok(obj) => objects.push(
                            (obj.uri.to_string(), obj.content.clone())
                        ),
                        Err(err) => {
                            self.violation("C04", "unreadable", step, format!(
                                "stored point {}: object read error {err}",
                                path.display()
                            ));
                            break
                        }
                    }
                }
                // Identify by path: .../rrdp/<auth>/<hash>/rsync/... or
                // .../rsync/rsync/...
                let key = path.strip_prefix(&base).unwrap()
                    .to_string_lossy().into_owned();
                // Drop the hash component of RRDP paths.
                let key = {
                    let parts: Vec<&str> = key.split('/').collect();
                    if parts[0] == "rrdp" && parts.len() > 3 {
                        format!("rrdp/{}/{}", parts[1], parts[3..].join("/"))
                    }
                    else { key.clone() }
                };
                // C05: number and thisUpdate only ever go up while a
                // point stays in the store.
                let number = manifest.manifest_number.into_array().to_vec();
                let this_update = manifest.this_update.timestamp();
                if let Some((old_number, old_time, old_bytes)) =
                    self.stored_seen.get(&key)
                {
                    if *old_bytes != manifest.manifest
                        && !(number > *old_number && this_update > *old_time)
                    {
                        self.violation("C05", "rollback", step, format!(
                            "stored manifest of {key} replaced by one that \
                             is not newer: number {:?} -> {:?}, thisUpdate \
                             {old_time} -> {this_update}",
                            &old_number[16..], &number[16..]
                        ));
                    }
                }
                now_seen.insert(
                    key.clone(), (number, this_update, manifest.manifest.clone())
                );
                on_disk.insert(
                    key, (manifest.manifest.clone(), manifest.crl.clone(), objects)
                );
            }
        }
        self.stored_seen = now_seen;
        // Model side, keyed the same way.
        let mut model_side = BTreeMap::new();
        for point in self.state.store.values() {
            let rest = point.mft_uri.trim_start_matches("rsync://");
            let key = match point.rpki_notify.as_ref() {
                Some(notify) => {
                    let auth = notify.trim_start_matches("https://")
                        .split('/').next().unwrap().to_string();
                    format!("rrdp/{}/rsync/{}", auth, rest)
                }
                None => format!("rsync/rsync/{rest}"),
            };
            model_side.insert(key, point.clone());
        }
        for (key, point) in &model_side {
            match on_disk.get(key) {
                None => {
                    self.violation("C04", "missing-point", step, format!(
                        "model expects stored point {key} but store has none"
                    ));
                }
                Some((mft, crl, objects)) => {
                    let want_mft = &self.files.get(point.mft).bytes;
                    let want_crl = &self.files.get(point.crl).bytes;
                    let want_objs: Vec<(String, Bytes)> = point.objects.iter()
                        .map(|(uri, id)| {
                            (uri.clone(), self.files.get(*id).bytes.clone())
                        }).collect();
                    let mut got = objects.clone();
                    got.sort();
                    let mut want = want_objs.clone();
                    want.sort();
                    if mft != want_mft || crl != want_crl || got != want {
                        let which = self.files.by_bytes(mft).map(|id| {
                            match &self.files.get(id).kind {
                                FileKind::Mft(info) => format!(
                                    "manifest number {}", info.number
                                ),
                                _ => "not a manifest".into()
                            }
                        }).unwrap_or_else(|| "unknown bytes".into());
                        self.violation("C04", "wrong-content", step, format!(
                            "stored point {key}: content differs from the \
                             expected version (expected manifest number {}, \
                             stored {which}; objects {} vs expected {})",
                             point.info.number, got.len(), want.len()
                        ));
                    }
                }
            }
        }
        for key in on_disk.keys() {
            if !model_side.contains_key(key) {
                self.violation("C04", "unexpected-point", step, format!(
                    "store holds point {key} the model does not expect"
                ));
            }
        }
    }

    pub fn finish(mut self) -> RunResult {
        routinator::verif::uninstall();
        self.stats.sim_seconds = self.now - self.start;
        self.stats.signed = self.cache.signed;
        let mut faults: Vec<&String> = self.stats.faults.keys().collect();
        faults.sort();
        self.stats.signature = format!(
            "{:?}|cas{}{}", faults, self.stats.cas, self.stats.signature
        );
        let _ = std::fs::remove_dir_all(&self.scratch);
        RunResult {
            seed: self.seed,
            violations: self.violations.into_iter().filter(|v| {
                v.class != "harness"
            }).collect(),
            stats: self.stats,
            log: self.log,
            ops: self.ops,
        }
    }
}


//------------ C23: crash points of a validation run -------------------------

impl Sim {
    fn restore_cache(&self, from: &Path) {
        let cache = self.scratch.join("cache");
        let _ = std::fs::remove_dir_all(&cache);
        crate::engb::copy_dir(from, &cache);
    }

    /// Reads every stored point below the cache: key -> (manifest, crl,
    /// objects) or None for a point without a stored manifest.
    #[allow(clippy::type_complexity)]
    fn read_store(
        &self
    ) -> Result<BTreeMap<String, Option<(Bytes, Bytes, Vec<(String, Bytes)>)>>, String> {
        use routinator::store::StoredPoint;
        let base = self.scratch.join("cache").join("stored");
        let mut res = BTreeMap::new();
        let mut stack = vec![base.join("rsync"), base.join("rrdp")];
        while let Some(dir) = stack.pop() {
            let Ok(read) = std::fs::read_dir(&dir) else { continue };
            let mut entries: Vec<_> = read.filter_map(|e| e.ok()).collect();
            entries.sort_by_key(|e| e.file_name());
            for entry in entries {
                let path = entry.path();
                if path.is_dir() {
                    stack.push(path);
                    continue
                }
                let key = path.strip_prefix(&base).unwrap()
                    .to_string_lossy().into_owned();
                let key = {
                    let parts: Vec<&str> = key.split('/').collect();
                    if parts[0] == "rrdp" && parts.len() > 3 {
                        format!("rrdp/{}/{}", parts[1], parts[3..].join("/"))
                    }
                    else { key.clone() }
                };
                let len = std::fs::metadata(&path).map(|m| m.len()).unwrap_or(0);
                let Some(mut point) = StoredPoint::load_quietly(path.clone())
                else {
                    // An unreadable file is fine only if it is a (partial)
                    // header, which the store recreates.
                    if len > 4096 {
                        return Err(format!(
                            "stored point {key} ({len} bytes) does not load"
                        ))
                    }
                    res.insert(key, None);
                    continue
                };
                let Some(manifest) = point.manifest().cloned() else {
                    res.insert(key, None);
                    continue
                };
                let mut objects = Vec::new();
                for item in &mut point {
                    match item {
                        Ok(obj) => objects.push(
                            (obj.uri.to_string(), obj.content.clone())
                        ),
                        Err(err) => return Err(format!(
                            "stored point {key}: object read error {err}"
                        )),
                    }
                }
                objects.sort();
                res.insert(key, Some((
                    manifest.manifest.clone(), manifest.crl.clone(), objects
                )));
            }
        }
        Ok(res)
    }

    fn model_store_side(
        &self, state: &ModelState
    ) -> BTreeMap<String, (Bytes, Bytes, Vec<(String, Bytes)>)> {
        let mut res = BTreeMap::new();
        for point in state.store.values() {
            let rest = point.mft_uri.trim_start_matches("rsync://");
            let key = match point.rpki_notify.as_ref() {
                Some(notify) => {
                    let auth = notify.trim_start_matches("https://")
                        .split('/').next().unwrap().to_string();
                    format!("rrdp/{}/rsync/{}", auth, rest)
                }
                None => format!("rsync/rsync/{rest}"),
            };
            let mut objects: Vec<(String, Bytes)> = point.objects.iter().map(
                |(uri, id)| (uri.clone(), self.files.get(*id).bytes.clone())
            ).collect();
            objects.sort();
            res.insert(key, (
                self.files.get(point.mft).bytes.clone(),
                self.files.get(point.crl).bytes.clone(),
                objects
            ));
        }
        res
    }

    fn crash_explore(
        &mut self, step: usize, expect: &Expect, transport: &Transport,
        state_after: ModelState,
    ) {
        use std::sync::atomic::Ordering;
        let kill = Arc::new(crate::engb::KillCtl {
            cache: self.scratch.join("cache"),
            image: self.scratch.join("image"),
            at: std::sync::atomic::AtomicI64::new(-1),
            counter: std::sync::atomic::AtomicI64::new(0),
            taken_site: Mutex::new(None),
        });
        *self.handler.kill.lock().unwrap() = Some(kill.clone());
        let pre = self.scratch.join("pre");
        let _ = std::fs::remove_dir_all(&pre);
        crate::engb::copy_dir(&self.scratch.join("cache"), &pre);

        // The uninterrupted run.
        self.reset_perm(step);
        let reference = match self.real_run(step) {
            Ok((snapshot, _)) => {
                self.check_run(step, expect, &snapshot, transport);
                snapshot_to_set(&snapshot).0
            }
            Err(msg) => {
                self.violation("C23", "run-failed", step, format!(
                    "uninterrupted run failed: {msg}"
                ));
                return
            }
        };
        self.stats.steps += 1;
        let n_points = kill.counter.load(Ordering::SeqCst);
        self.stats.probes.insert("kill-points".into(), n_points as u64);
        // What the run after a completed run gives (cleanup has removed
        // expired points by then). A kill during cleanup leaves a state in
        // between, point by point.
        let post = self.scratch.join("post");
        let _ = std::fs::remove_dir_all(&post);
        crate::engb::copy_dir(&self.scratch.join("cache"), &post);
        self.reset_perm(step);
        let reference2 = match self.real_run(step) {
            Ok((snapshot, _)) => snapshot_to_set(&snapshot).0,
            Err(msg) => {
                self.violation("C23", "run-failed", step, format!(
                    "second uninterrupted run failed: {msg}"
                ));
                return
            }
        };
        let _ = std::fs::remove_dir_all(&post);
        let before = self.model_store_side(&self.state);
        let after = self.model_store_side(&state_after);

        let mut points: Vec<i64> = (0..n_points).collect();
        if !self.crash_thorough && points.len() > 10 {
            let mut prng = Rng::new(mix(&[self.seed, 600]));
            prng.shuffle(&mut points);
            points.truncate(10);
            points.sort();
        }
        let mut seen_images: BTreeSet<Vec<u8>> = BTreeSet::new();
        let mut images = 0u64;
        for &k in &points {
            if self.crash_mask.contains(&(step, 1000 + k as usize)) {
                continue
            }
            self.restore_cache(&pre);
            kill.counter.store(0, Ordering::SeqCst);
            kill.at.store(k, Ordering::SeqCst);
            *kill.taken_site.lock().unwrap() = None;
            self.reset_perm(step);
            let _ = self.real_run(step);
            kill.at.store(-1, Ordering::SeqCst);
            let Some(site) = kill.taken_site.lock().unwrap().clone() else {
                continue
            };
            let digest = crate::engb::dir_digest(&kill.image);
            if !seen_images.insert(digest) {
                continue
            }
            images += 1;
            self.stats.fault(&format!("kill@{site}"));
            self.ops.push(json!({
                "step": step, "k": 1000 + k, "op": "kill", "site": site,
                "of": n_points
            }));
            self.note(format!("kill at point {k}/{n_points} ({site})"));
            // The process is gone; the image is what is left.
            self.restore_cache(&kill.image);

            // (a) every stored point is its previous or new version.
            match self.read_store() {
                Err(msg) => self.violation("C23", "store-unreadable", step, format!(
                    "after kill at {site} (point {k}): {msg}"
                )),
                Ok(found) => {
                    for (key, content) in &found {
                        let Some(content) = content else { continue };
                        let ok = before.get(key) == Some(content)
                            || after.get(key) == Some(content);
                        if !ok {
                            self.violation("C23", "mixed-point", step, format!(
                                "after kill at {site} (point {k}): stored \
                                 point {key} is neither its previous nor its \
                                 new complete version"
                            ));
                        }
                    }
                    for key in before.keys() {
                        if after.contains_key(key)
                            && !matches!(found.get(key), Some(Some(_)))
                        {
                            self.violation("C23", "point-lost", step, format!(
                                "after kill at {site} (point {k}): stored \
                                 point {key} lost"
                            ));
                        }
                    }
                }
            }
            // (d) the store status must be readable (or absent).
            let config = self.config(true);
            match Engine::new(&config, false) {
                Ok(engine) => {
                    if engine.store_status().is_err() {
                        self.violation("C23", "status-unreadable", step, format!(
                            "after kill at {site} (point {k}): the store \
                             status cannot be read, commands relying on it \
                             (vrps --update-after) fail"
                        ));
                    }
                }
                Err(_) => self.violation("C23", "engine-new", step, format!(
                    "after kill at {site}: Engine::new failed"
                )),
            }
            // (b) an offline run works.
            {
                let mut cfg = self.config(false);
                cfg.dirty_repository = true;
                match Engine::new(&cfg, false).map_err(|_| "new".to_string())
                    .and_then(|engine| {
                        ValidationReport::process(&engine, &cfg, false)
                            .map_err(|e| format!("fatal={}", e.is_fatal()))
                    })
                {
                    Ok(_) => { }
                    Err(msg) => self.violation("C23", "offline-run-failed", step,
                        format!("after kill at {site} (point {k}): offline \
                                 run failed ({msg})")),
                }
            }
            // (c) the next online run gives the uninterrupted run's result.
            // A retryable failure (corrupt collector copy found and removed)
            // followed by a successful retry is how every command and the
            // server proceed.
            self.reset_perm(step);
            let mut next = self.real_run(step);
            if matches!(&next, Err(msg) if msg.contains("fatal=false")) {
                self.stats.probe("next-run-retried");
                self.reset_perm(step);
                next = self.real_run(step);
            }
            match next {
                Ok((snapshot, _)) => {
                    let (set, _) = snapshot_to_set(&snapshot);
                    // Cleanup, and the status file written after it, come
                    // when the run's work is done: what follows is simply
                    // the next run.
                    let in_cleanup = site.starts_with("store.cleanup")
                        || site.starts_with("store.status");
                    let relaxed_ok = in_cleanup && {
                        set.origins.iter().all(|i| {
                            reference.origins.contains(i)
                                || reference2.origins.contains(i)
                        })
                        && set.keys.iter().all(|i| {
                            reference.keys.contains(i)
                                || reference2.keys.contains(i)
                        })
                        && set.aspas.keys().all(|c| {
                            reference.aspas.contains_key(c)
                                || reference2.aspas.contains_key(c)
                        })
                        && reference.origins.iter().all(|i| {
                            !reference2.origins.contains(i)
                                || set.origins.contains(i)
                        })
                        && reference.keys.iter().all(|i| {
                            !reference2.keys.contains(i)
                                || set.keys.contains(i)
                        })
                    };
                    if relaxed_ok && set != reference {
                        self.stats.probe("cleanup-kill-intermediate-result");
                    }
                    if set != reference && !relaxed_ok {
                        let extra = set.minus(&reference);
                        let missing = reference.minus(&set);
                        self.violation("C23", "different-result", step, format!(
                            "after kill at {site} (point {k}): next run \
                             differs from the uninterrupted run: extra \
                             {extra:?} missing {missing:?}"
                        ));
                    }
                }
                Err(msg) => self.violation("C23", "next-run-failed", step, format!(
                    "after kill at {site} (point {k}): next run failed: {msg}"
                )),
            }
            if !self.violations.is_empty() {
                break
            }
        }
        self.stats.probes.insert("images-checked".into(), images);
        *self.handler.kill.lock().unwrap() = None;
        self.state = state_after;
    }
}

pub fn run_crash(
    seed: u64, profile: &Profile, mask: &BTreeSet<(usize, usize)>,
    scratch: &Path, thorough: bool,
) -> RunResult {
    let mut sim = Sim::new(seed, profile.clone(), scratch);
    sim.crash_step = Some(profile.steps - 1);
    sim.crash_thorough = thorough;
    sim.crash_mask = mask.clone();
    for step in 0..profile.steps {
        sim.step(step, mask);
        if sim.violations.iter().any(|v| v.class == "harness") {
            break
        }
    }
    sim.finish()
}


//------------ C33: a run during which the store fails ----------------------

impl Sim {
    /// What clients of the server see: session, serial, the data set and
    /// the /json document (which carries the generation time).
    fn served_fingerprint(&self) -> Option<(u64, u32, Vec<String>, Vec<u8>)> {
        use rpki::rtr::server::{PayloadSet, PayloadSource};
        let server = self.server.as_ref()?;
        let (state, mut set) = server.history.full();
        let mut data = Vec::new();
        while let Some(item) = set.next() {
            data.push(format!("{item:?}"));
        }
        let session = server.history.read().session();
        let (_, body) = server.get("/json");
        Some((session, u32::from(state.serial()), data, body))
    }

    fn store_fault_run(
        &mut self, step: usize, expect: &Expect, transport: &Transport,
    ) {
        let mut rng = Rng::new(mix(&[self.seed, 300, step as u64]));
        let before = self.served_fingerprint();
        let base = self.scratch.join("cache").join("stored");
        let mut files = Vec::new();
        let mut stack = vec![base.clone()];
        while let Some(dir) = stack.pop() {
            let Ok(read) = std::fs::read_dir(&dir) else { continue };
            for entry in read.flatten() {
                let path = entry.path();
                if path.is_dir() { stack.push(path) } else { files.push(path) }
            }
        }
        files.sort();
        let tas: Vec<_> = files.iter().filter(|p| {
            p.strip_prefix(&base).map(|p| p.starts_with("ta")).unwrap_or(false)
        }).cloned().collect();
        // The fault: a path the store needs cannot be read or written, or
        // the n-th file operation of the run fails.
        let io_fault = rng.chance(50, 100) && self.last_io_calls > 0;
        let what = match rng.below(10) {
            _ if io_fault => {
                let at = rng.below((self.last_io_calls as u64 * 11) / 10 + 1);
                self.handler.io_fail_at.store(
                    at as i64, std::sync::atomic::Ordering::SeqCst
                );
                format!("file operation {at} of the run fails (the previous \
                    run performed {})", self.last_io_calls)
            }
            0..=3 if !tas.is_empty() => {
                let victim = rng.pick(&tas).clone();
                let _ = std::fs::remove_file(&victim);
                let _ = std::fs::create_dir_all(&victim);
                format!("stored trust anchor {} is unreadable",
                    victim.strip_prefix(&base).unwrap().display())
            }
            4..=7 if !files.is_empty() => {
                let victim = rng.pick(&files).clone();
                let _ = std::fs::remove_file(&victim);
                let _ = std::fs::create_dir_all(&victim);
                format!("store file {} is unreadable",
                    victim.strip_prefix(&base).unwrap().display())
            }
            _ => {
                let tmp = base.join("tmp");
                let _ = std::fs::remove_dir_all(&tmp);
                let _ = std::fs::write(&tmp, b"not a directory");
                "the store's tmp directory cannot be used".to_string()
            }
        };
        self.stats.fault("StoreFault");
        self.note(format!("step {step}: store fault: {what}"));
        self.ops.push(json!({"step": step, "op": "store-fault", "what": what}));
        self.handler.io_calls.store(0, std::sync::atomic::Ordering::SeqCst);
        *self.handler.io_fired.lock().unwrap() = None;
        let real = self.real_run(step);
        self.handler.io_fail_at.store(-1, std::sync::atomic::Ordering::SeqCst);
        let fired = self.handler.io_fired.lock().unwrap().take();
        let what = match fired.as_ref() {
            Some(site) => {
                self.stats.probe(&format!("io-fault-at-{site}"));
                format!("{what}: injected at {site}")
            }
            None => {
                if io_fault { self.stats.probe("io-fault-not-reached"); }
                what
            }
        };
        self.stats.steps += 1;
        match real {
            Err(msg) => {
                self.stats.probe("store-fault-run-failed");
                self.note(format!("step {step}: run failed: {msg}"));
                let after = self.served_fingerprint();
                if before != after {
                    let (b, a) = (before.unwrap(), after.unwrap());
                    self.violation("C33", "served-changed", step, format!(
                        "the run failed ({msg}) but the served state changed: \
                         serial {} -> {}, {} -> {} items, session {} -> {}, \
                         /json document {}",
                        b.1, a.1, b.2.len(), a.2.len(), b.0, a.0,
                        if b.3 == a.3 { "unchanged" } else { "changed" }
                    ));
                }
            }
            Ok((snapshot, _)) => {
                // Either the path was not needed in this run -- then the
                // result is the fault-free one -- or a failure was swallowed.
                self.stats.probe("store-fault-run-succeeded");
                let n = self.violations.len();
                self.check_run(step, expect, &snapshot, transport);
                for v in &mut self.violations[n..] {
                    if v.class == "harness" { continue }
                    v.message = format!(
                        "with the fault \"{what}\" the run reported success \
                         and published a data set that is not the one of a \
                         successful run: [{} {}] {}",
                        v.property, v.class, v.message
                    );
                    v.property = "C33";
                    v.class = "failure-swallowed".into();
                }
            }
        }
    }
}


//------------ C27: corrupt local data --------------------------------------

/// Changes one structural field of an object archive (`utils::archive`):
/// an index entry or a field of an object header, found by walking the
/// file. Layout: 6 bytes magic, 16 bytes hash key, bucket count (native
/// `usize`), `bucket count + 1` positions (`u64`), then objects, each with a
/// header of size, next (`u64`), empty flag (1 byte), name and data length
/// (`usize`).
fn corrupt_archive_structure(data: &mut [u8], rng: &mut Rng) -> Option<String> {
    let u64_at = |data: &[u8], at: usize| -> Option<u64> {
        Some(u64::from_ne_bytes(data.get(at..at + 8)?.try_into().ok()?))
    };
    let buckets = u64_at(data, 22)? as usize;
    if buckets == 0 || buckets > 1 << 20 { return None }
    let index_start = 30usize;
    let objects_start = index_start + (buckets + 1) * 8;
    // Walk the objects.
    let mut headers = Vec::new();
    let mut pos = objects_start;
    while pos + 33 <= data.len() && headers.len() < 10_000 {
        let size = u64_at(data, pos)? as usize;
        let empty = data[pos + 16] != 0;
        headers.push((pos, empty));
        if size < 33 || size > data.len() || pos + size > data.len() { break }
        pos += size;
    }
    let choose_value = |rng: &mut Rng, old: u64| -> u64 {
        match rng.below(10) {
            0 | 8 => old ^ 1,
            1 | 9 => old.wrapping_add(1 + rng.below(32)),
            2 => old.wrapping_sub(1),
            3 => old ^ (1 << rng.below(16)),
            4 => old.wrapping_add(256),
            5 => 0,
            6 => *rng.pick(&[u64::MAX, 1 << 63, 1 << 40, 1 << 32, 0xffff_ffff]),
            _ => rng.below(1 << 20),
        }
    };
    if !headers.is_empty() && rng.chance(70, 100) {
        // Prefer empty objects: they are what the next write will use.
        let empties: Vec<_> = headers.iter().filter(|h| h.1).collect();
        let (pos, empty) = if !empties.is_empty() && rng.chance(75, 100) {
            **rng.pick(&empties)
        } else { *rng.pick(&headers) };
        let (name, off, width) = *rng.pick(&[
            ("size", 0usize, 8usize), ("size", 0, 8), ("size", 0, 8),
            ("next", 8, 8),
            ("empty flag", 16, 1), ("name length", 17, 8),
            ("data length", 25, 8),
        ]);
        if width == 1 {
            data[pos + 16] = if rng.chance(50, 100) { data[pos + 16] ^ 1 }
                else { rng.below(256) as u8 };
            return Some(format!(
                "{name} of the {} object at {pos} changed",
                if empty { "empty" } else { "live" }
            ))
        }
        let old = u64_at(data, pos + off)?;
        let new = choose_value(rng, old);
        data[pos + off..pos + off + 8].copy_from_slice(&new.to_ne_bytes());
        Some(format!(
            "{name} of the {} object at {pos}: {old} -> {new}",
            if empty { "empty" } else { "live" }
        ))
    }
    else {
        // An index entry; the last one heads the list of empty objects.
        let k = if rng.chance(30, 100) { buckets } else { rng.usize(buckets + 1) };
        let at = index_start + k * 8;
        let old = u64_at(data, at)?;
        let new = if !headers.is_empty() && rng.chance(50, 100) {
            rng.pick(&headers).0 as u64 + rng.below(2)
        } else { choose_value(rng, old) };
        data.get_mut(at..at + 8)?.copy_from_slice(&new.to_ne_bytes());
        Some(format!("index entry {k}: {old} -> {new}"))
    }
}

/// How a run in a forked child ended.
#[derive(Clone, Debug, PartialEq, Eq)]
enum ChildEnd {
    Ok,
    Failed,
    Panicked,
    Signal(i32),
    Hang,
    ForkFailed,
}

impl Sim {
    /// Runs a validation in a forked child with a limit on the address
    /// space, so that panics, aborts and excessive allocations of the run
    /// are observed instead of taking the simulation down.
    fn forked_run(&mut self, step: usize, headroom: u64) -> ChildEnd {
        let mut fds = [0 as libc::c_int; 2];
        if unsafe { libc::pipe(fds.as_mut_ptr()) } != 0 {
            return ChildEnd::ForkFailed
        }
        self.engine = None;
        let pid = unsafe { libc::fork() };
        if pid < 0 {
            return ChildEnd::ForkFailed
        }
        if pid == 0 {
            unsafe { libc::close(fds[0]); }
            // Limit the address space to what we have plus the headroom.
            let vm_pages: u64 = std::fs::read_to_string("/proc/self/statm")
                .ok().and_then(|s| {
                    s.split_whitespace().next().and_then(|v| v.parse().ok())
                }).unwrap_or(0);
            let limit = vm_pages * 4096 + headroom;
            let rlim = libc::rlimit { rlim_cur: limit, rlim_max: limit };
            unsafe { libc::setrlimit(libc::RLIMIT_AS, &rlim); }
            let res = std::panic::catch_unwind(
                std::panic::AssertUnwindSafe(|| self.real_run(step))
            );
            let code: u8 = match res {
                Ok(Ok(_)) => b'o',
                Ok(Err(_)) => b'e',
                Err(_) => b'p',
            };
            unsafe {
                libc::write(fds[1], &code as *const u8 as *const _, 1);
                libc::_exit(0);
            }
        }
        unsafe { libc::close(fds[1]); }
        // Wait with a watchdog (real time; only elapses on a violation).
        let start = std::time::Instant::now();
        let mut status: libc::c_int = 0;
        let mut hang = false;
        loop {
            let res = unsafe { libc::waitpid(pid, &mut status, libc::WNOHANG) };
            if res == pid { break }
            if res < 0 { unsafe { libc::close(fds[0]); } return ChildEnd::ForkFailed }
            if start.elapsed() > std::time::Duration::from_secs(120) {
                unsafe {
                    libc::kill(pid, libc::SIGKILL);
                    libc::waitpid(pid, &mut status, 0);
                }
                hang = true;
                break
            }
            std::thread::sleep(std::time::Duration::from_millis(2));
        }
        let mut code = 0u8;
        let n = unsafe {
            libc::read(fds[0], &mut code as *mut u8 as *mut _, 1)
        };
        unsafe { libc::close(fds[0]); }
        if hang {
            return ChildEnd::Hang
        }
        if libc::WIFSIGNALED(status) {
            return ChildEnd::Signal(libc::WTERMSIG(status))
        }
        match (n, code) {
            (1, b'o') => ChildEnd::Ok,
            (1, b'e') => ChildEnd::Failed,
            (1, b'p') => ChildEnd::Panicked,
            _ => ChildEnd::Signal(-1),
        }
    }

    /// Corrupts files of the local cache in several rounds, each followed
    /// by a run with the servers as they are and a second run.
    fn corrupt_runs(&mut self, step: usize, mask: &BTreeSet<(usize, usize)>) {
        const HEADROOM: u64 = 1 << 30;
        let pristine = self.scratch.join("pristine");
        let _ = std::fs::remove_dir_all(&pristine);
        crate::engb::copy_dir(&self.scratch.join("cache"), &pristine);
        // Sanity: the run on the pristine cache works in a child.
        let clean = self.forked_run(step, HEADROOM);
        if clean != ChildEnd::Ok && clean != ChildEnd::Failed {
            self.violations.push(Violation {
                property: "harness", class: "harness".into(),
                message: format!("forked run on the intact cache: {clean:?}"),
                step,
            });
            return
        }
        for round in 0..self.profile.corrupt_rounds {
            if mask.contains(&(step, 800 + round)) {
                continue
            }
            let mut rng = Rng::new(mix(&[
                self.seed, 800, step as u64, round as u64
            ]));
            self.restore_cache(&pristine);
            let cache = self.scratch.join("cache");
            let mut files = Vec::new();
            let mut stack = vec![cache.join("stored"), cache.join("rrdp")];
            if rng.chance(20, 100) { stack.push(cache.join("rsync")); }
            while let Some(dir) = stack.pop() {
                let Ok(read) = std::fs::read_dir(&dir) else { continue };
                for entry in read.flatten() {
                    let path = entry.path();
                    if path.is_dir() { stack.push(path) } else { files.push(path) }
                }
            }
            files.sort();
            if files.is_empty() { return }
            let n_files = 1 + rng.usize(3);
            let mut what = Vec::new();
            let archives: Vec<PathBuf> = files.iter().filter(|p| {
                p.strip_prefix(&cache).map(|p| p.starts_with("rrdp"))
                    .unwrap_or(false)
            }).cloned().collect();
            for _ in 0..n_files {
                // There are many more stored points than archives: give the
                // archives their share.
                let path = if !archives.is_empty() && rng.chance(40, 100) {
                    rng.pick(&archives).clone()
                } else { rng.pick(&files).clone() };
                let mut data = std::fs::read(&path).unwrap_or_default();
                let rel = path.strip_prefix(&cache).unwrap().display().to_string();
                let mut kind = rng.below(9);
                // Half of the corruptions of an RRDP archive aim at its
                // structure: an index entry or a field of an object header.
                let mut structural = None;
                if rel.starts_with("rrdp/") && rng.chance(50, 100) {
                    structural = corrupt_archive_structure(&mut data, &mut rng);
                }
                if structural.is_some() { kind = 100; }
                // Offsets are biased towards the start where headers and
                // length fields live.
                let mut offset = |rng: &mut Rng, len: usize| -> usize {
                    if len == 0 { 0 }
                    else if rng.chance(60, 100) { rng.usize(len.min(400)) }
                    else { rng.usize(len) }
                };
                let desc = match kind {
                    0 => {
                        let at = offset(&mut rng, data.len());
                        data.truncate(at);
                        format!("truncate to {at}")
                    }
                    1 => {
                        let n = 1 + rng.usize(4);
                        let mut at_list = Vec::new();
                        for _ in 0..n {
                            if data.is_empty() { break }
                            let at = offset(&mut rng, data.len());
                            data[at] ^= 1 << rng.below(8);
                            at_list.push(at);
                        }
                        format!("bit flips at {at_list:?}")
                    }
                    2 | 3 => {
                        // A length-like field gets a huge or odd value.
                        let at = offset(&mut rng, data.len());
                        let width = *rng.pick(&[4usize, 8]);
                        let value: u64 = *rng.pick(&[
                            u64::MAX, u64::MAX - 1, 1 << 63, (1 << 63) - 1,
                            1 << 40, 1 << 32, 0xffff_ffff, 0x8000_0000,
                            0x7fff_ffff, 0x4000_0000, 1 << 24, 0,
                        ]);
                        let bytes = value.to_be_bytes();
                        let src = if width == 4 && value > u32::MAX as u64 {
                            [0xff; 8]
                        } else { bytes };
                        for i in 0..width {
                            if at + i < data.len() {
                                data[at + i] = src[8 - width + i];
                            }
                        }
                        format!("{width} byte value {value:#x} at {at}")
                    }
                    4 => {
                        let len = rng.usize(64);
                        data = vec![0u8; len];
                        rng.fill(&mut data);
                        format!("replaced by {len} random bytes")
                    }
                    5 => {
                        let at = offset(&mut rng, data.len());
                        let len = 1 + rng.usize(64);
                        for b in data.iter_mut().skip(at).take(len) { *b = 0 }
                        format!("{len} zero bytes at {at}")
                    }
                    6 => {
                        let at = offset(&mut rng, data.len());
                        let len = 1 + rng.usize(64);
                        for b in data.iter_mut().skip(at).take(len) { *b = 0xff }
                        format!("{len} 0xff bytes at {at}")
                    }
                    100 => structural.take().unwrap(),
                    7 => {
                        let len = 1 + rng.usize(200);
                        let mut extra = vec![0u8; len];
                        rng.fill(&mut extra);
                        data.extend_from_slice(&extra);
                        format!("{len} random bytes appended")
                    }
                    _ => {
                        // A torn write: the tail of the file is lost and
                        // replaced by zeros up to the old length.
                        let at = offset(&mut rng, data.len());
                        for b in data.iter_mut().skip(at) { *b = 0 }
                        format!("zero-filled from {at}")
                    }
                };
                let _ = std::fs::write(&path, &data);
                what.push(format!("{rel}: {desc}"));
            }
            let what = what.join("; ");
            self.stats.fault("CorruptLocal");
            self.ops.push(json!({
                "step": step, "k": 800 + round, "op": "corrupt-local",
                "what": what
            }));
            for attempt in 0..2 {
                let end = self.forked_run(step, HEADROOM);
                self.stats.steps += 1;
                self.stats.probe(&format!("corrupt-run-{end:?}").to_lowercase()
                    .replace(|c: char| !c.is_ascii_alphanumeric() && c != '-', ""));
                let class = match end {
                    ChildEnd::Ok | ChildEnd::Failed => None,
                    ChildEnd::Panicked => Some("panic"),
                    ChildEnd::Signal(_) => Some("abort"),
                    ChildEnd::Hang => Some("hang"),
                    ChildEnd::ForkFailed => {
                        self.violations.push(Violation {
                            property: "harness", class: "harness".into(),
                            message: "fork failed".into(), step,
                        });
                        return
                    }
                };
                if let Some(class) = class {
                    self.violation("C27", class, step, format!(
                        "run {} after corrupting the local cache ({what}) \
                         ended with {end:?} (address space limited to the \
                         process size plus 1 GiB)",
                        attempt + 1
                    ));
                    return
                }
            }
        }
    }
}


//------------ C41: differential runs -------------------------------------

impl Sim {
    /// Repeats the run of this step from the same cache with a fault placed
    /// in one repository and compares the two results.
    fn differential(
        &mut self, step: usize, base: &Path, without: &PayloadSnapshot
    ) {
        let mut rng = Rng::new(mix(&[self.seed, 500, step as u64]));
        let candidates: Vec<usize> = (0..self.world.cas.len()).filter(|ca| {
            self.world.cas[*ca].active && !self.history[*ca].is_empty()
        }).collect();
        if candidates.is_empty() { return }
        let base_ca = *rng.pick(&candidates);
        let repo = self.world.cas[base_ca].rrdp;
        let module = self.world.cas[base_ca].module_uri();
        // Everything published in the same repository.
        let mut roots: BTreeSet<usize> = (0..self.world.cas.len()).filter(|ca| {
            let spec = &self.world.cas[*ca];
            (repo.is_some() && spec.rrdp == repo)
                || spec.module_uri() == module
        }).collect();
        for tal in &self.world.tals {
            if tal.uris.iter().any(|uri| {
                uri.starts_with("rsync://") && model::module_of(uri) == module
            }) {
                roots.insert(tal.ca);
            }
        }
        let notify = repo.map(|r| self.world.repos[r].notify_uri());
        let mut kind = rng.below(4);
        let mut what = String::new();
        self.restore_cache(base);
        if kind == 1 {
            // Corrupt local archive of the RRDP repository.
            let auth = notify.as_ref().map(|n| {
                n.trim_start_matches("https://").split('/').next()
                    .unwrap_or("").to_string()
            });
            let victim = auth.and_then(|auth| {
                self.list_cache().archives.into_iter().find(|a| {
                    a.split('/').next() == Some(auth.as_str())
                })
            });
            match victim {
                Some(victim) => {
                    let path = self.scratch.join("cache").join("rrdp")
                        .join(&victim);
                    let mut data = std::fs::read(&path).unwrap_or_default();
                    for b in data.iter_mut().skip(40).take(4000) { *b = 0xff }
                    let _ = std::fs::write(&path, data);
                    what = format!("corrupt local archive {victim}");
                }
                None => kind = 0,
            }
        }
        match kind {
            0 => {
                let both = rng.chance(50, 100);
                match notify.as_ref() {
                    Some(notify) => {
                        self.rrdp_fail.insert(notify.clone());
                        if both { self.rsync_fail.insert(module.clone()); }
                        what = format!(
                            "unreachable: {notify}{}", if both {
                                format!(" and {module}")
                            } else { String::new() }
                        );
                    }
                    None => {
                        self.rsync_fail.insert(module.clone());
                        what = format!("unreachable: {module}");
                    }
                }
            }
            1 => { }
            _ => {
                use OpKind::*;
                let kinds: &[OpKind] = if kind == 2 {
                    &[SigFaultObj, HashMismatch, MissingFile, OverclaimObj,
                      TimeFaultObj, Unlisted, CrlMissing, CrlGarbage,
                      CrlWrongKey, MftGarbage, MftWrongKey, RemoveObj]
                } else {
                    &[MftStale, CrlStale, ExpireMftEe, MftPremature]
                };
                let targets: Vec<usize> = roots.iter().copied().filter(|ca| {
                    self.world.cas[*ca].active
                }).collect();
                let n = 1 + rng.usize(targets.len().min(3));
                let mut names = Vec::new();
                for i in 0..n {
                    let ca = *rng.pick(&targets);
                    let op = *rng.pick(kinds);
                    self.force_ca = Some(ca);
                    let mut orng = Rng::new(mix(&[
                        self.seed, 501, step as u64, i as u64
                    ]));
                    self.apply_op(step, 900 + i, op, &mut orng);
                    self.force_ca = None;
                    names.push(format!("{op:?} at ca{ca}"));
                }
                what = format!("bad content: {}", names.join(", "));
            }
        }
        // The subtree: the CAs of the repository and all their descendants.
        let mut affected = roots.clone();
        loop {
            let mut grew = false;
            for ca in 0..self.world.cas.len() {
                if let Some(parent) = self.world.cas[ca].parent {
                    if affected.contains(&parent) && affected.insert(ca) {
                        grew = true;
                    }
                }
            }
            if !grew { break }
        }
        self.stats.fault(&format!("diff-fault-{kind}"));
        self.note(format!(
            "step {step}: differential run with {what}; affected subtree {:?}",
            affected
        ));
        self.ops.push(json!({
            "step": step, "op": "differential", "fault": what,
            "affected": affected.iter().collect::<Vec<_>>()
        }));
        self.engine = None;
        self.publish(step);
        let _transport = self.build_servers(step);
        self.reset_perm(step);
        let mut real = self.real_run(step);
        if matches!(&real, Err(msg) if msg.contains("fatal=false")) {
            // What the server and the commands do: one retry.
            self.stats.probe("diff-run-retried");
            self.engine = None;
            real = self.real_run(step);
        }
        self.stats.steps += 1;
        let with = match real {
            Ok((snapshot, _)) => snapshot,
            Err(msg) => {
                self.violation("C41", "run-failed", step, format!(
                    "with the fault \"{what}\" in one repository the whole \
                     run fails: {msg}"
                ));
                return
            }
        };
        // Everything the subtree could contribute: all versions ever
        // published by its CAs.
        let mut aff = PayloadSet::default();
        let mut aff_res_v4 = Vec::new();
        let mut aff_res_v6 = Vec::new();
        for ca in &affected {
            aff_res_v4.extend(self.world.cas[*ca].cert.res.v4.iter().copied());
            aff_res_v6.extend(self.world.cas[*ca].cert.res.v6.iter().copied());
            for version in &self.history[*ca] {
                for id in version.published.values() {
                    match &self.files.get(*id).kind {
                        FileKind::Obj(info) => {
                            let items = model::raw_items_of(&info.payload);
                            aff.origins.extend(items.origins);
                            aff.keys.extend(items.keys);
                            for (customer, providers) in items.aspas {
                                aff.aspas.entry(customer).or_default()
                                    .extend(providers);
                            }
                        }
                        FileKind::CaCert(info) => {
                            aff_res_v4.extend(info.res.v4.iter().copied());
                            aff_res_v6.extend(info.res.v6.iter().copied());
                        }
                        _ => { }
                    }
                }
            }
        }
        let reject = self.cfg.unsafe_vrps == Policy::Reject;
        let excused = |item: &(u32, Pfx, u8)| -> bool {
            if aff.origins.contains(item) { return true }
            if !reject { return false }
            match item.1 {
                Pfx::V4(p) => aff_res_v4.iter().any(|r| r.overlaps(p)),
                Pfx::V6(p) => aff_res_v6.iter().any(|r| r.overlaps(p)),
            }
        };
        let (a, _) = snapshot_to_set(without);
        let (b, _) = snapshot_to_set(&with);
        let mut problems = Vec::new();
        for item in a.origins.symmetric_difference(&b.origins) {
            if !excused(item) {
                problems.push(format!(
                    "VRP {:?} {} the fault", item,
                    if a.origins.contains(item) { "disappears with" }
                    else { "appears with" }
                ));
            }
        }
        for item in a.keys.symmetric_difference(&b.keys) {
            if !aff.keys.contains(item) {
                problems.push(format!(
                    "router key of AS{} {} the fault", item.1,
                    if a.keys.contains(item) { "disappears with" }
                    else { "appears with" }
                ));
            }
        }
        let customers: BTreeSet<u32> = a.aspas.keys().chain(b.aspas.keys())
            .copied().collect();
        for customer in customers {
            if a.aspas.get(&customer) != b.aspas.get(&customer)
                && !aff.aspas.contains_key(&customer)
            {
                problems.push(format!(
                    "ASPA of AS{customer} differs: {:?} without, {:?} with \
                     the fault", a.aspas.get(&customer), b.aspas.get(&customer)
                ));
            }
        }
        self.stats.probe(if a == b { "diff-same-result" } else { "diff-result-differs" });
        if a.origins.iter().any(|item| !excused(item))
            || a.keys.iter().any(|item| !aff.keys.contains(item))
        {
            self.stats.probe("diff-payload-outside-subtree");
            if a != b {
                self.stats.probe("diff-differs-and-payload-outside-subtree");
            }
        }
        if !problems.is_empty() {
            self.violation("C41", "outside-subtree", step, format!(
                "fault \"{what}\" (subtree {:?}) changes payload that no CA \
                 of that subtree ever published: {}",
                affected, problems.join("; ")
            ));
        }
    }
}


//------------ C40: cleanup --------------------------------------------------

#[derive(Clone, Debug, Default)]
pub struct CacheListing {
    /// Stored point files: relative path -> notAfter of the manifest EE
    /// certificate if the point has a stored manifest.
    pub stored: BTreeMap<String, Option<i64>>,
    /// rsync module directories that contain at least one file.
    pub modules: BTreeSet<String>,
    /// RRDP archive files (relative to the rrdp directory).
    pub archives: BTreeSet<String>,
}

fn has_files(dir: &Path) -> bool {
    let Ok(read) = std::fs::read_dir(dir) else { return false };
    for entry in read.flatten() {
        let path = entry.path();
        if path.is_dir() {
            if has_files(&path) { return true }
        }
        else {
            return true
        }
    }
    false
}

impl Sim {
    pub fn list_cache(&self) -> CacheListing {
        use routinator::store::StoredPoint;
        let cache = self.scratch.join("cache");
        let mut res = CacheListing::default();
        let base = cache.join("stored");
        let mut stack = vec![base.join("rsync"), base.join("rrdp")];
        while let Some(dir) = stack.pop() {
            let Ok(read) = std::fs::read_dir(&dir) else { continue };
            for entry in read.flatten() {
                let path = entry.path();
                if path.is_dir() { stack.push(path); continue }
                let rel = path.strip_prefix(&base).unwrap()
                    .to_string_lossy().into_owned();
                let na = StoredPoint::load_quietly(path.clone()).and_then(|p| {
                    p.manifest().map(|m| m.not_after.timestamp())
                });
                res.stored.insert(rel, na);
            }
        }
        if let Ok(hosts) = std::fs::read_dir(cache.join("rsync")) {
            for host in hosts.flatten() {
                if let Ok(modules) = std::fs::read_dir(host.path()) {
                    for module in modules.flatten() {
                        if has_files(&module.path()) {
                            res.modules.insert(format!(
                                "{}/{}",
                                host.file_name().to_string_lossy(),
                                module.file_name().to_string_lossy()
                            ));
                        }
                    }
                }
            }
        }
        if let Ok(hosts) = std::fs::read_dir(cache.join("rrdp")) {
            for host in hosts.flatten() {
                if host.file_name() == "tmp" { continue }
                if let Ok(files) = std::fs::read_dir(host.path()) {
                    for file in files.flatten() {
                        res.archives.insert(format!(
                            "{}/{}",
                            host.file_name().to_string_lossy(),
                            file.file_name().to_string_lossy()
                        ));
                    }
                }
            }
        }
        res
    }

    /// Corrupts one RRDP archive, expects the run to fail (retryable) and
    /// checks that a failed run removes nothing else.
    fn corrupt_and_fail(&mut self, step: usize, before: &CacheListing) {
        let Some(victim) = before.archives.iter().next().cloned() else { return };
        let path = self.scratch.join("cache").join("rrdp").join(&victim);
        let Ok(meta) = std::fs::metadata(&path) else { return };
        // Keep the magic and the size, ruin the index.
        let mut data = std::fs::read(&path).unwrap_or_default();
        for b in data.iter_mut().skip(40).take(4000) { *b = 0xff }
        data.truncate(meta.len() as usize);
        if std::fs::write(&path, data).is_err() { return }
        self.stats.fault("CorruptArchive");
        self.ops.push(json!({"step": step, "op": "corrupt-archive", "file": victim}));
        self.reset_perm(step);
        match self.real_run(step) {
            Ok(_) => {
                // The archive was not needed or got replaced: fine.
                self.stats.probe("corrupt-archive-run-ok");
            }
            Err(msg) => {
                self.stats.probe("failed-run");
                self.note(format!("step {step}: run failed as provoked: {msg}"));
                let after = self.list_cache();
                let now = self.now;
                // Removing expired points is fine at any time (a run that
                // fails while cleaning up has done part of the cleanup).
                for (rel, na) in &before.stored {
                    if matches!(na, Some(na) if *na > now)
                        && !after.stored.contains_key(rel)
                    {
                        self.violation("C40", "failed-run-removed", step, format!(
                            "a failed run removed the unexpired stored \
                             point {rel}"
                        ));
                    }
                }
                let mut needed_modules = BTreeSet::new();
                let mut needed_auths = BTreeSet::new();
                for point in self.state.store.values() {
                    if point.info.ee.na <= now { continue }
                    match point.rpki_notify.as_ref() {
                        Some(notify) => {
                            needed_auths.insert(
                                notify.trim_start_matches("https://")
                                    .split('/').next().unwrap_or("").to_string()
                            );
                        }
                        None => {
                            needed_modules.insert(
                                model::module_of(&point.mft_uri)
                                    .trim_start_matches("rsync://")
                                    .trim_end_matches('/').to_string()
                            );
                        }
                    }
                }
                for module in &before.modules {
                    if needed_modules.contains(module)
                        && !after.modules.contains(module)
                    {
                        self.violation("C40", "failed-run-removed", step, format!(
                            "a failed run removed rsync module {module} \
                             used by a retained publication point"
                        ));
                    }
                }
                for archive in &before.archives {
                    let auth = archive.split('/').next().unwrap_or("");
                    if *archive != victim && needed_auths.contains(auth)
                        && !after.archives.contains(archive)
                    {
                        self.violation("C40", "failed-run-removed", step, format!(
                            "a failed run removed RRDP archive {archive} \
                             used by a retained publication point"
                        ));
                    }
                }
                // What an operator / the retry logic does next.
                let config = self.config(true);
                if let Ok(engine) = Engine::new(&config, true) {
                    let _ = engine.sanitize();
                }
                if path.exists() {
                    if routinator::collector::RrdpArchive::verify(&path).is_err() {
                        let _ = std::fs::remove_file(&path);
                        self.stats.probe("corrupt-archive-survived-sanitize");
                    }
                }
            }
        }
        // The local copy is gone now (or replaced by the provoked run).
        if !path.exists() {
            let auth = victim.split('/').next().unwrap_or("").to_string();
            self.state.rrdp_copy.retain(|notify, _| {
                notify.trim_start_matches("https://").split('/').next()
                    != Some(auth.as_str())
            });
        }
        // The engine may hold state about the failed run; start afresh.
        self.engine = None;
    }

    fn check_cleanup(
        &mut self, step: usize, before: &CacheListing, state_after: &ModelState
    ) {
        let after = self.list_cache();
        let now = self.now;
        // (1) unexpired stored points stay.
        for (rel, na) in &before.stored {
            if let Some(na) = na {
                if *na > now && !after.stored.contains_key(rel) {
                    self.violation("C40", "unexpired-point-removed", step, format!(
                        "stored point {rel} removed although its manifest \
                         certificate is valid until {na} (now {now})"
                    ));
                }
            }
        }
        // (2) dirty: nothing at all is removed.
        if self.cfg.dirty {
            for rel in before.stored.keys() {
                if !after.stored.contains_key(rel) {
                    self.violation("C40", "dirty-removed", step, format!(
                        "stored point {rel} removed although dirty is set"
                    ));
                }
            }
            for module in &before.modules {
                if !after.modules.contains(module) {
                    self.violation("C40", "dirty-removed", step, format!(
                        "rsync module {module} removed although dirty is set"
                    ));
                }
            }
            for archive in &before.archives {
                if !after.archives.contains(archive) {
                    self.violation("C40", "dirty-removed", step, format!(
                        "RRDP archive {archive} removed although dirty is set"
                    ));
                }
            }
        }
        // (3) collector copies that retained points or this run use.
        for module in state_after.rsync_copy.keys() {
            let name = module.trim_start_matches("rsync://")
                .trim_end_matches('/').to_string();
            if state_after.rsync_copy[module].is_empty() { continue }
            if !after.modules.contains(&name) {
                self.violation("C40", "module-removed", step, format!(
                    "rsync module {name} is gone although a retained \
                     publication point or this run uses it"
                ));
            }
        }
        for notify in state_after.rrdp_copy.keys() {
            let auth = notify.trim_start_matches("https://")
                .split('/').next().unwrap_or("");
            if !after.archives.iter().any(|a| a.starts_with(&format!("{auth}/"))) {
                self.violation("C40", "archive-removed", step, format!(
                    "the RRDP archive of {notify} is gone although a \
                     retained publication point or this run uses it"
                ));
            }
        }
        if after.stored.len() < before.stored.len() {
            self.stats.probe("points-cleaned");
        }
        if after.modules.len() < before.modules.len()
            || after.archives.len() < before.archives.len()
        {
            self.stats.probe("copies-cleaned");
        }
        // (4) what is left is enough for an offline run.
        let mut cfg = self.cfg.clone();
        cfg.rsync_on = false;
        cfg.rrdp_on = false;
        let mut state = state_after.clone();
        let expect = model::evaluate(
            &self.files, &self.world.tals, &cfg, &Transport::default(),
            self.now, &mut state
        );
        let mut config = self.config(false);
        config.dirty_repository = true;
        let offline = Engine::new(&config, false).map_err(|_| "new".to_string())
            .and_then(|engine| {
                ValidationReport::process(&engine, &config, false)
                    .map_err(|e| format!("fatal={}", e.is_fatal()))
            });
        match offline {
            Err(msg) => self.violation("C40", "offline-failed", step, format!(
                "offline run after cleanup failed: {msg}"
            )),
            Ok((report, mut metrics)) => {
                let exceptions = LocalExceptions::load(&config, false)
                    .unwrap_or_else(|_| LocalExceptions::empty());
                let snapshot = report.into_snapshot(&exceptions, &mut metrics);
                let (real, _) = snapshot_to_set(&snapshot);
                let want = self.apply_slurm(&expect.strict);
                if real != want {
                    self.violation("C40", "offline-differs", step, format!(
                        "offline run after cleanup: unexpected {:?} missing {:?}",
                        real.minus(&want), want.minus(&real)
                    ));
                }
            }
        }
    }
}

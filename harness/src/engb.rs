//! Engine B: one RRDP repository's client against a server history.
//!
//! Real `Collector` / `rrdp::Run::load_repository` via
//! `collector.start().repository(&ca)`, simulated HTTPS transport, a server
//! that publishes, rotates sessions, jumps serials, prunes deltas and shows
//! faulty or lagging views. Oracle: whenever the repository is reported as
//! updated via RRDP, the local archive equals the server's snapshot at the
//! session and serial recorded in the archive, and that is the version the
//! server announced in this exchange (or, for 304, the last synced one).

use std::collections::{BTreeMap, BTreeSet};
use std::path::{Path, PathBuf};
use std::sync::Arc;
use bytes::Bytes;
use routinator::collector::{Collector, RrdpArchive};
use routinator::config::Config;
use routinator::engine::CaCert;
use rpki::repository::cert::Cert;
use rpki::repository::tal::{TalInfo, TalUri};
use serde_json::{json, Value};
use crate::common::{RunResult, Stats, Violation};
use crate::pki::{self, CaCertSpec, KeyRef, Res};
use crate::servers::{Change, HttpSrv, Route, RrdpSrv};
use crate::sim::{self, mix, Rng};

const HOST: &str = "r0.sim.example";

struct BHandler {
    http: HttpSrv,
    kill: Option<Arc<KillCtl>>,
}

/// Control of kill points: at the chosen occurrence of a kill point the
/// cache directory is copied aside (the crash image).
pub struct KillCtl {
    pub cache: PathBuf,
    pub image: PathBuf,
    /// Take the image at this kill point number (counted from 0).
    pub at: std::sync::atomic::AtomicI64,
    pub counter: std::sync::atomic::AtomicI64,
    pub taken_site: std::sync::Mutex<Option<String>>,
}

impl routinator::verif::Handler for BHandler {
    fn http(
        &self, req: &routinator::verif::HttpRequest
    ) -> Option<routinator::verif::HttpResponse> {
        Some(self.http.respond(
            &req.uri, req.etag.as_deref(), req.if_modified_since.as_deref()
        ))
    }

    fn kill_point(&self, site: &'static str) {
        use std::sync::atomic::Ordering;
        let Some(kill) = self.kill.as_ref() else { return };
        let n = kill.counter.fetch_add(1, Ordering::SeqCst);
        if n == kill.at.load(Ordering::SeqCst) {
            let _ = std::fs::remove_dir_all(&kill.image);
            copy_dir(&kill.cache, &kill.image);
            *kill.taken_site.lock().unwrap() = Some(site.into());
        }
    }
}

pub fn copy_dir(src: &Path, dst: &Path) {
    std::fs::create_dir_all(dst).unwrap();
    let Ok(read) = std::fs::read_dir(src) else { return };
    for entry in read.flatten() {
        let target = dst.join(entry.file_name());
        match entry.file_type() {
            Ok(ft) if ft.is_dir() => copy_dir(&entry.path(), &target),
            Ok(_) => { let _ = std::fs::copy(entry.path(), &target); }
            Err(_) => { }
        }
    }
}

#[derive(Clone, Copy, Debug, PartialEq, Eq)]
enum Fault {
    None,
    NotifyStatus(u16),
    NotifyGarbage,
    NotifyTruncated,
    /// 304 whatever the client sends.
    Lying304,
    SnapshotStatus(u16),
    SnapshotHash,
    SnapshotTruncated,
    SnapshotWrongSerial,
    SnapshotWrongSession,
    SnapshotDuplicate,
    DeltaStatus(u16),
    DeltaHash,
    DeltaTruncated,
    DeltaWrongSerial,
    DeltaBadWithdraw,
    DeltaBadReplace,
    DeltaPublishExisting,
    DeltaListGap,
    DeltaListDuplicate,
    DeltaListNoLast,
    DeltaMutated,
    /// Both the delta path and the snapshot fail.
    DeltaAndSnapshotFail,
}

const FAULTS: &[Fault] = &[
    Fault::NotifyStatus(500), Fault::NotifyStatus(404), Fault::NotifyGarbage,
    Fault::NotifyTruncated, Fault::Lying304,
    Fault::SnapshotStatus(503), Fault::SnapshotHash, Fault::SnapshotTruncated,
    Fault::SnapshotWrongSerial, Fault::SnapshotWrongSession,
    Fault::SnapshotDuplicate,
    Fault::DeltaStatus(500), Fault::DeltaHash, Fault::DeltaTruncated,
    Fault::DeltaWrongSerial, Fault::DeltaBadWithdraw, Fault::DeltaBadReplace,
    Fault::DeltaPublishExisting, Fault::DeltaListGap,
    Fault::DeltaListDuplicate, Fault::DeltaListNoLast, Fault::DeltaMutated,
    Fault::DeltaAndSnapshotFail, Fault::DeltaAndSnapshotFail,
];

pub struct SimB {
    seed: u64,
    rng: Rng,
    scratch: PathBuf,
    config: Config,
    ca: Arc<CaCert>,
    srv: RrdpSrv,
    /// Every state the server has ever been in.
    srv_history: Vec<RrdpSrv>,
    http: HttpSrv,
    /// (session, serial) of the last update reported successful.
    last_ok: Option<(String, u64)>,
    /// The server's object set at that version.
    last_ok_objects: BTreeMap<String, Bytes>,
    /// The server view of the last successful update that was not a 304 and
    /// whether that exchange was free of injected faults.
    last_ok_view: Option<(RrdpSrv, bool)>,
    /// The deltas (serial -> hash text) listed in the notification of the
    /// last successful update that was not a 304: what the client remembers.
    last_ok_listing: BTreeMap<u64, String>,
    /// The deltas listed in the notification served in the current exchange.
    listing_now: BTreeMap<u64, String>,
    /// The deltas recorded in the client's archive state before the current
    /// exchange.
    stored_listing: BTreeMap<u64, String>,
    next_hist_id: u64,
    pub kill: Option<Arc<KillCtl>>,
    stats: Stats,
    log: Vec<String>,
    ops: Vec<Value>,
    violations: Vec<Violation>,
    property: &'static str,
    next_content: u64,
    /// Has the client been through a simulated crash?
    crashed: bool,
}

fn notify_uri() -> String {
    format!("https://{HOST}/rrdp/notification.xml")
}

fn make_ca(notify: &str) -> Arc<CaCert> {
    let repo = "rsync://h0.sim.example/m0/ca/".to_string();
    let spec = CaCertSpec {
        serial: 7, subject_key: 1, issuer: KeyRef::good(1), is_ta: true,
        not_before: 1_700_000_000, not_after: 1_900_000_000,
        res: Res::all(), inherit: false, overclaim_trim: false,
        ca_repository: repo.clone(),
        rpki_manifest: format!("{repo}ca.mft"),
        rpki_notify: Some(notify.into()),
        ca_issuer: String::new(), crl_uri: String::new(),
            same_name: false,
    };
    let cert = Cert::decode(pki::make_ca_cert(&spec)).unwrap().validate_ta(
        TalInfo::from_name("sim".into()).into_arc(), false
    ).expect("validate_ta");
    CaCert::root(
        cert, TalUri::Rsync(pki::rsync_uri(&format!("{repo}ta.cer"))), 0
    ).unwrap()
}

impl SimB {
    pub fn new(
        seed: u64, property: &'static str, scratch: &Path, with_kill: bool
    ) -> Self {
        let _ = std::fs::remove_dir_all(scratch);
        std::fs::create_dir_all(scratch.join("cache")).unwrap();
        let mut rng = Rng::new(mix(&[seed, 41]));
        let start = 1_750_000_000 + rng.below(1_000_000) as i64;
        sim::clock::set(start);
        sim::entropy::set(mix(&[seed, 42]));
        let mut config = Config::default_with_paths(
            Default::default(), scratch.join("cache")
        );
        config.no_rir_tals = true;
        config.disable_rsync = true;
        config.rrdp_max_delta_count = *rng.pick(&[1, 2, 3, 100]);
        config.rrdp_max_delta_list_len = *rng.pick(&[3, 500, 500]);
        let http = HttpSrv::default();
        let kill = with_kill.then(|| Arc::new(KillCtl {
            cache: scratch.join("cache"),
            image: scratch.join("image"),
            at: std::sync::atomic::AtomicI64::new(-1),
            counter: std::sync::atomic::AtomicI64::new(0),
            taken_site: std::sync::Mutex::new(None),
        }));
        routinator::verif::install(Arc::new(BHandler {
            http: http.clone(), kill: kill.clone()
        }));
        let mut srv = RrdpSrv::new(
            HOST, crate::servers::uuid_from(mix(&[seed, 43]), 1)
        );
        srv.max_deltas = *rng.pick(&[2, 4, 8]);
        srv.serial = 1 + rng.below(5);
        let mut sim = SimB {
            seed, rng, scratch: scratch.into(), config,
            ca: make_ca(&notify_uri()),
            srv, srv_history: Vec::new(), http, last_ok: None,
            last_ok_objects: BTreeMap::new(), last_ok_view: None,
            last_ok_listing: BTreeMap::new(), listing_now: BTreeMap::new(),
            stored_listing: BTreeMap::new(),
            next_hist_id: 0, kill,
            stats: Stats::default(), log: Vec::new(), ops: Vec::new(),
            violations: Vec::new(), property, next_content: 0,
            crashed: false,
        };
        // Initial content.
        for _ in 0..3 {
            sim.mutate_server();
        }
        sim.push_history();
        sim
    }

    /// Records the current server state as the next entry of the history,
    /// derived from the entry the state was taken from.
    fn push_history(&mut self) {
        self.next_hist_id += 1;
        self.srv.hist_parent = Some(self.srv.hist_id);
        self.srv.hist_id = self.next_hist_id;
        self.srv_history.push(self.srv.clone());
    }

    /// The content the lineage of `view` had at the given version.
    fn ancestor_content(
        &self, view: &RrdpSrv, session: &str, serial: u64
    ) -> Option<&BTreeMap<String, Bytes>> {
        let mut cur = self.srv_history.iter().find(|h| h.hist_id == view.hist_id);
        while let Some(state) = cur {
            if state.session != session || state.serial < serial {
                return None
            }
            if state.serial == serial {
                return Some(&state.objects)
            }
            let parent = state.hist_parent?;
            cur = self.srv_history.iter().find(|h| h.hist_id == parent);
        }
        None
    }

    fn violation(&mut self, class: &str, step: usize, msg: String) {
        self.log.push(format!("VIOLATION {} {class}: {msg}", self.property));
        self.violations.push(Violation {
            property: self.property, class: class.into(), message: msg, step
        });
    }

    fn uri(n: u64) -> String {
        format!("rsync://h0.sim.example/m0/ca/o{n}.roa")
    }

    /// One publication step on the server.
    fn mutate_server(&mut self) {
        let mut objects = self.srv.objects.clone();
        let n = 1 + self.rng.usize(3);
        for _ in 0..n {
            let uri = Self::uri(self.rng.below(8));
            match self.rng.below(3) {
                0 if objects.contains_key(&uri) => { objects.remove(&uri); }
                _ => {
                    self.next_content += 1;
                    let len = *self.rng.pick(&[10usize, 100, 300, 3000]);
                    let mut data = format!(
                        "content {} of {uri} ", self.next_content
                    ).into_bytes();
                    data.resize(len.max(data.len()), b'.');
                    objects.insert(uri, Bytes::from(data));
                }
            }
        }
        self.srv.publish(objects);
    }

    fn server_step(&mut self, step: usize) {
        let roll = self.rng.below(100);
        let what = if roll < 55 {
            let n = 1 + self.rng.usize(3);
            for _ in 0..n { self.mutate_server(); }
            format!("publish x{n}")
        }
        else if roll < 65 {
            let session = crate::servers::uuid_from(
                mix(&[self.seed, 44, step as u64]), 2
            );
            let serial = 1 + self.rng.below(20);
            self.srv.new_session(session, serial);
            self.mutate_server();
            "new-session".into()
        }
        else if roll < 72 {
            // Serial jump: deltas are gone.
            self.srv.serial += 2 + self.rng.below(1000);
            self.srv.deltas.clear();
            self.mutate_server();
            "serial-jump".into()
        }
        else if roll < 80 {
            if self.srv.deltas.len() > 1 {
                self.srv.deltas.remove(0);
            }
            "prune-deltas".into()
        }
        else if roll < 90 && self.property == "C25" {
            // The server rewrites its recent history under the same
            // session (restore from backup): go back one or two serials
            // and publish different changes under the same serials.
            let back = 1 + self.rng.below(2);
            let target = self.srv.serial.saturating_sub(back);
            let session = self.srv.session.clone();
            let base = self.srv_history.iter().rev().find(|s| {
                s.session == session && s.serial == target
            }).cloned();
            match base {
                Some(base) => {
                    self.srv = base;
                    let n = back + self.rng.below(2);
                    for _ in 0..n { self.mutate_server(); }
                    format!("rewrite-history back {back} forward {n}")
                }
                None => "idle".into()
            }
        }
        else {
            "idle".into()
        };
        self.push_history();
        self.ops.push(json!({"step": step, "op": "server", "what": what,
            "serial": self.srv.serial}));
        self.stats.fault(&format!("srv-{}", what.split(' ').next().unwrap()));
    }

    /// Builds the routes for the view of `state` under `fault`.
    fn routes(
        &mut self, state: &RrdpSrv, fault: Fault
    ) -> BTreeMap<String, Route> {
        let mut routes = state.routes();
        let notify = state.notify_uri();
        let snapshot_uri = state.snapshot_uri();
        let last_delta = state.deltas.last().map(|d| state.delta_uri(d.0));
        let some_delta = if state.deltas.is_empty() { None } else {
            let idx = self.rng.usize(state.deltas.len());
            Some((idx, state.delta_uri(state.deltas[idx].0)))
        };
        let truncate = |route: &mut Route| {
            route.fail_after = Some(route.body.len() / 2);
        };
        // Rebuilds the notification with a modified delta list / hashes.
        let renotify = |routes: &mut BTreeMap<String, Route>,
                            state: &RrdpSrv,
                            edit: &dyn Fn(&mut Vec<(u64, String, Vec<u8>)>)| {
            let mut list: Vec<(u64, String, Vec<u8>)> = state.deltas.iter().map(
                |(serial, _)| {
                    let uri = state.delta_uri(*serial);
                    let hash = pki::sha256(&routes[&uri].body);
                    (*serial, uri, hash)
                }
            ).collect();
            edit(&mut list);
            let snap_hash = pki::sha256(&routes[&state.snapshot_uri()].body);
            let body = crate::servers::notification_xml(
                &state.session, state.serial,
                (&state.snapshot_uri(), &snap_hash), &list
            );
            let mut route = Route::ok(body);
            route.etag = Some(state.etag());
            routes.insert(state.notify_uri(), route);
        };
        match fault {
            Fault::None => { }
            Fault::NotifyStatus(code) => {
                routes.insert(notify, Route::status(code));
            }
            Fault::NotifyGarbage => {
                routes.insert(notify, Route::ok(Bytes::from_static(
                    b"<?xml version=\"1.0\"?><notification xmlns=\"http://www.ripe.net/rpki/rrdp\" version=\"1\" session_id=\"nonsense\""
                )));
            }
            Fault::NotifyTruncated => {
                let route = routes.get_mut(&notify).unwrap();
                truncate(route);
                route.etag = None;
            }
            Fault::Lying304 => {
                routes.insert(notify, Route {
                    status: 304, ..Route::status(304)
                });
            }
            Fault::SnapshotStatus(code) => {
                routes.insert(snapshot_uri, Route::status(code));
            }
            Fault::SnapshotHash => {
                // Swap the content of one object after the hash was computed.
                let route = routes.get_mut(&snapshot_uri).unwrap();
                let mut body = route.body.to_vec();
                if let Some(pos) = body.windows(9).position(|w| w == b"</publish") {
                    body[pos - 2] = if body[pos - 2] == b'A' { b'B' } else { b'A' };
                }
                route.body = Bytes::from(body);
            }
            Fault::SnapshotTruncated => {
                truncate(routes.get_mut(&snapshot_uri).unwrap());
            }
            Fault::SnapshotWrongSerial | Fault::SnapshotWrongSession
            | Fault::SnapshotDuplicate => {
                let objects: Vec<(String, Bytes)> = state.objects.iter().map(
                    |(k, v)| (k.clone(), v.clone())
                ).collect();
                let mut objects2 = objects.clone();
                if fault == Fault::SnapshotDuplicate {
                    if let Some(first) = objects.first() {
                        objects2.push(first.clone());
                    }
                }
                let body = crate::servers::snapshot_xml(
                    &if fault == Fault::SnapshotWrongSession {
                        crate::servers::uuid_from(99, 99)
                    } else { state.session.clone() },
                    if fault == Fault::SnapshotWrongSerial {
                        state.serial + 1
                    } else { state.serial },
                    &objects2
                );
                routes.insert(snapshot_uri.clone(), Route::ok(body));
                renotify(&mut routes, state, &|_| { });
            }
            Fault::DeltaStatus(code) => {
                if let Some((_, uri)) = some_delta {
                    routes.insert(uri, Route::status(code));
                }
            }
            Fault::DeltaHash => {
                if let Some((_, uri)) = some_delta {
                    let route = routes.get_mut(&uri).unwrap();
                    let mut body = route.body.to_vec();
                    body.extend_from_slice(b"<!-- x -->");
                    route.body = Bytes::from(body);
                }
            }
            Fault::DeltaTruncated => {
                if let Some((_, uri)) = some_delta {
                    truncate(routes.get_mut(&uri).unwrap());
                }
            }
            Fault::DeltaWrongSerial | Fault::DeltaBadWithdraw
            | Fault::DeltaBadReplace | Fault::DeltaPublishExisting => {
                if let Some((idx, uri)) = some_delta {
                    let (serial, changes) = &state.deltas[idx];
                    let mut changes = changes.clone();
                    let mut serial = *serial;
                    match fault {
                        Fault::DeltaWrongSerial => serial += 1,
                        Fault::DeltaBadWithdraw => changes.push(
                            Change::Withdraw(Self::uri(77), [3u8; 32])
                        ),
                        Fault::DeltaBadReplace => changes.push(
                            Change::Publish(
                                Self::uri(78), Some([4u8; 32]),
                                Bytes::from_static(b"replacement")
                            )
                        ),
                        _ => {
                            // Publish (without hash) something that exists
                            // before this delta: take an object untouched by
                            // the delta.
                            let touched: BTreeSet<&String> = changes.iter().map(
                                |c| match c {
                                    Change::Publish(uri, _, _) => uri,
                                    Change::Withdraw(uri, _) => uri,
                                }
                            ).collect();
                            if let Some((uri, data)) = state.objects.iter().find(
                                |(uri, _)| !touched.contains(uri)
                            ) {
                                changes.push(Change::Publish(
                                    uri.clone(), None, data.clone()
                                ));
                            }
                        }
                    }
                    let body = crate::servers::delta_xml(
                        &state.session, serial, &changes
                    );
                    routes.insert(uri, Route::ok(body));
                    renotify(&mut routes, state, &|_| { });
                }
            }
            Fault::DeltaListGap => {
                renotify(&mut routes, state, &|list| {
                    if list.len() > 2 { list.remove(list.len() / 2); }
                });
            }
            Fault::DeltaListDuplicate => {
                renotify(&mut routes, state, &|list| {
                    if let Some(last) = list.last().cloned() {
                        list.push(last);
                    }
                });
            }
            Fault::DeltaListNoLast => {
                renotify(&mut routes, state, &|list| { list.pop(); });
            }
            Fault::DeltaMutated => {
                // A delta the client may have seen before now has another
                // hash (and content).
                if let Some((_, uri)) = some_delta {
                    let route = routes.get_mut(&uri).unwrap();
                    let mut body = route.body.to_vec();
                    body.extend_from_slice(b"\n");
                    route.body = Bytes::from(body);
                    renotify(&mut routes, state, &|_| { });
                }
            }
            Fault::DeltaAndSnapshotFail => {
                if let Some(uri) = last_delta {
                    routes.insert(uri, Route::status(500));
                }
                routes.insert(snapshot_uri, Route::status(500));
            }
        }
        let chunk = *self.rng.pick(&[17usize, 256, 16384]);
        let with_len = self.rng.chance(70, 100);
        for route in routes.values_mut() {
            route.chunk = chunk;
            route.content_length = with_len;
        }
        routes
    }

    fn archive_path(&self) -> PathBuf {
        let notify = notify_uri();
        self.scratch.join("cache").join("rrdp").join(HOST).join(format!(
            "{}.bin", crate::servers::hex(&pki::sha256(notify.as_bytes()))
        ))
    }

    /// Reads the local copy: (session, serial, objects).
    fn read_archive_at(
        path: &Path
    ) -> Result<Option<(String, u64, BTreeMap<String, Bytes>)>, String> {
        if !path.exists() {
            return Ok(None)
        }
        let archive = RrdpArchive::open(Arc::new(path.to_path_buf()))
            .map_err(|_| "cannot open archive".to_string())?;
        let state = archive.load_state().map_err(|_| {
            "cannot load state".to_string()
        })?;
        let mut objects = BTreeMap::new();
        for item in archive.objects().map_err(|_| "objects failed".to_string())? {
            let (uri, data) = item.map_err(|_| "object read failed".to_string())?;
            objects.insert(uri.to_string(), data);
        }
        Ok(Some((state.session.to_string(), state.serial, objects)))
    }

    /// One client update attempt against a view; returns whether the
    /// repository was reported as updated via RRDP.
    fn client_update(
        &mut self, step: usize, view: usize, fault: Fault, restart: bool,
    ) -> Option<bool> {
        let state = self.srv_history[view].clone();
        let routes = self.routes(&state, fault);
        self.client_update_with(step, view, fault, restart, routes)
    }

    fn client_update_with(
        &mut self, step: usize, view: usize, fault: Fault, restart: bool,
        routes: BTreeMap<String, Route>,
    ) -> Option<bool> {
        let state = self.srv_history[view].clone();
        self.listing_now = routes.get(&state.notify_uri()).map(|route| {
            parse_delta_listing(&route.body)
        }).unwrap_or_default();
        // What the client remembers of earlier notifications is what its
        // archive state says.
        self.stored_listing = RrdpArchive::open(Arc::new(self.archive_path()))
            .ok().and_then(|archive| archive.load_state().ok())
            .map(|st| st.delta_state.iter().map(|(serial, hash)| {
                (*serial, hash.to_string().to_ascii_lowercase())
            }).collect()).unwrap_or_default();
        if std::env::var_os("VERIF_DEBUG_STATE").is_some() {
            self.log.push(format!(
                "step {step}: deltas remembered by the client: {:?}",
                self.stored_listing.iter().map(|(s, h)| {
                    format!("{s}:{}", &h[..8.min(h.len())])
                }).collect::<Vec<_>>()
            ));
        }
        self.http.set_routes(routes);
        let _ = self.http.take_log();
        let _ = restart;
        let collector = match Collector::new(&self.config) {
            Ok(collector) => collector,
            Err(_) => {
                self.violation("collector-new", step, "Collector::new failed".into());
                return None
            }
        };
        let ca = self.ca.clone();
        let res = {
            let run = collector.start();
            let res = run.repository(&ca);
            match res {
                Ok(Some(repo)) => Ok(Some(repo.is_rrdp())),
                Ok(None) => Ok(None),
                Err(err) => Err(err.is_fatal()),
            }
        };
        let log = self.http.take_log();
        let got_304 = log.iter().any(|e| {
            e.uri.ends_with("notification.xml") && e.status == 304
        });
        self.ops.push(json!({
            "step": step, "k": 0, "op": "client-update",
            "view": format!("{}#{}", &state.session[..8], state.serial),
            "lagging": view + 1 != self.srv_history.len(),
            "fault": format!("{fault:?}"),
            "requests": log.iter().map(|e| format!(
                "{} -> {}", e.uri.rsplit('/').take(2).collect::<Vec<_>>()
                    .into_iter().rev().collect::<Vec<_>>().join("/"),
                e.status
            )).collect::<Vec<_>>(),
            "result": format!("{res:?}"),
        }));
        self.stats.fault(&format!("{fault:?}").split('(').next().unwrap().to_string());
        match res {
            Err(fatal) => {
                if fatal && !self.crashed {
                    self.violation("fatal", step, format!(
                        "repository update ended the run with a fatal error \
                         (fault {fault:?})"
                    ));
                }
                else if fatal {
                    // After a crash a reported fatal error is not what C24
                    // is about (nothing is reported as updated).
                    self.stats.probe("fatal-after-crash");
                }
                else {
                    self.stats.probe("retryable-run-failure");
                }
                None
            }
            Ok(None) => {
                self.stats.probe("not-updated");
                self.log.push(format!(
                    "step {step}: view {}#{} fault {fault:?} -> not updated",
                    &state.session[..8], state.serial
                ));
                Some(false)
            }
            Ok(Some(false)) => {
                self.violation("rsync-repo", step,
                    "rsync repository handed out although rsync is disabled".into());
                None
            }
            Ok(Some(true)) => {
                self.stats.probe(if got_304 { "updated-304" } else { "updated" });
                let local = match Self::read_archive_at(&self.archive_path()) {
                    Ok(Some(local)) => local,
                    Ok(None) => {
                        self.violation("no-archive", step,
                            "update reported successful but there is no \
                             archive".into());
                        return None
                    }
                    Err(err) => {
                        self.violation("archive-unreadable", step, format!(
                            "update reported successful but the archive \
                             cannot be read: {err}"
                        ));
                        return None
                    }
                };
                let (session, serial, objects) = local;
                // The version recorded in the archive.
                let announced = (state.session.clone(), state.serial);
                let want_version = if got_304 && self.crashed {
                    // After a crash the copy may legitimately be at the
                    // version the interrupted update was working on; only
                    // its consistency is required.
                    (session.clone(), serial)
                }
                else if got_304 {
                    match self.last_ok.clone() {
                        Some(ok) => ok,
                        None => {
                            self.violation("304-without-copy", step,
                                "304 turned into success without a synced \
                                 copy".into());
                            return None
                        }
                    }
                } else { announced };
                if (session.clone(), serial) != want_version {
                    self.violation("wrong-version", step, format!(
                        "archive records {}#{} but the exchange was for {}#{} \
                         (304: {got_304})",
                        &session[..8], serial, &want_version.0[..8],
                        want_version.1
                    ));
                }
                // Content must equal the server's snapshot at that version.
                let truths: Vec<BTreeMap<String, Bytes>> = if got_304
                    && !self.crashed
                {
                    vec![self.last_ok_objects.clone()]
                }
                else if got_304 {
                    self.srv_history.iter().filter(|s| {
                        s.session == session && s.serial == serial
                    }).map(|s| s.objects.clone()).collect()
                }
                else if state.session == session && state.serial == serial {
                    vec![state.objects.clone()]
                }
                else {
                    Vec::new()
                };
                if truths.is_empty() {
                    self.violation("unknown-version", step, format!(
                        "archive records {}#{} which is not the version of \
                         this exchange", &session[..8], serial
                    ));
                }
                else if !truths.iter().any(|truth| *truth == objects)
                    && self.rewrite_excuses(&state, &log, got_304)
                {
                    // The server changed, under the same session and serial,
                    // the version the client holds, and nothing the client
                    // was shown reveals it: the deltas cannot lead to the
                    // snapshot and no client could notice.
                    self.stats.probe("undetectable-history-rewrite");
                }
                else if !truths.iter().any(|truth| *truth == objects) {
                    self.log.push(format!(
                        "step {step}: listed now {:?}; remembered {:?}",
                        self.listing_now.iter().map(|(s, h)| format!("{s}:{}", &h[..8.min(h.len())])).collect::<Vec<_>>(),
                        self.last_ok_listing.iter().map(|(s, h)| format!("{s}:{}", &h[..8.min(h.len())])).collect::<Vec<_>>(),
                    ));
                    let truth = &truths[0];
                    let missing: Vec<&String> = truth.keys().filter(
                        |k| !objects.contains_key(*k)).collect();
                    let extra: Vec<&String> = objects.keys().filter(
                        |k| !truth.contains_key(*k)).collect();
                    let differ: Vec<&String> = truth.iter().filter(
                        |(k, v)| objects.get(*k).map(|o| o != *v)
                            .unwrap_or(false)
                    ).map(|x| x.0).collect();
                    self.violation("divergent-copy", step, format!(
                        "update reported successful (304: {got_304}) \
                         but the local copy differs from the server's \
                         snapshot {}#{}: missing {missing:?} extra \
                         {extra:?} differing {differ:?}",
                        &session[..8], serial
                    ));
                }
                self.last_ok_objects = objects.clone();
                self.last_ok = Some((session.clone(), serial));
                if !got_304 {
                    self.last_ok_view = Some((
                        state.clone(), matches!(fault, Fault::None)
                    ));
                    self.last_ok_listing = self.listing_now.clone();
                }
                self.log.push(format!(
                    "step {step}: view {}#{} fault {fault:?} -> updated to \
                     {}#{} ({} objects{})",
                    &state.session[..8], state.serial, &session[..8], serial,
                    objects.len(), if got_304 { ", 304" } else { "" }
                ));
                Some(true)
            }
        }
    }

    /// Is a copy that differs from the announced snapshot the unavoidable
    /// result of a rewritten server history?
    ///
    /// Only if the update was done by deltas alone, the version the client
    /// started from is not what this view's lineage had at that version, and
    /// no delta that the client has seen listed before is listed now with
    /// different content (that, the client must notice).
    fn rewrite_excuses(
        &self, state: &RrdpSrv, log: &[crate::servers::HttpLogEntry],
        got_304: bool,
    ) -> bool {
        if got_304 || self.crashed {
            return false
        }
        let by_deltas = log.iter().any(|e| e.uri.ends_with("delta.xml"))
            && !log.iter().any(|e| {
                e.uri.ends_with("snapshot.xml") && e.status == 200
            });
        if !by_deltas {
            return false
        }
        let Some((session, serial)) = self.last_ok.clone() else {
            return false
        };
        let on_lineage = self.ancestor_content(state, &session, serial)
            .map(|objects| *objects == self.last_ok_objects)
            .unwrap_or(false);
        if on_lineage {
            return false
        }
        // What the client was shown: a delta listed now under a serial that
        // its stored state remembers with another hash must make it notice.
        let obliged = self.listing_now.iter().any(|(serial, hash)| {
            matches!(
                self.stored_listing.get(serial),
                Some(old) if *old != hash.to_ascii_lowercase()
            )
        });
        !obliged
    }

    fn pick_view_and_fault(&mut self, orng: &mut Rng) -> (usize, Fault) {
        let view = if orng.chance(15, 100) && self.srv_history.len() > 1 {
            // Lagging mirror: an older state.
            orng.usize(self.srv_history.len() - 1)
        } else { self.srv_history.len() - 1 };
        let fault = if orng.chance(45, 100) {
            *orng.pick(FAULTS)
        } else { Fault::None };
        (view, fault)
    }

    pub fn run(mut self, mask: &BTreeSet<(usize, usize)>, thorough: bool) -> RunResult {
        let n_steps = if thorough { self.rng.range(4, 14) } else {
            self.rng.range(3, 8)
        } as usize;
        for step in 0..n_steps {
            let mut orng = Rng::new(mix(&[self.seed, 45, step as u64]));
            if mask.contains(&(step, 0)) {
                continue
            }
            if step > 0 {
                let delta = orng.range(10, 400);
                sim::clock::advance(delta);
                self.stats.sim_seconds += delta;
                self.server_step(step);
            }
            let (view, fault) = self.pick_view_and_fault(&mut orng);
            let restart = orng.chance(50, 100);
            self.client_update(step, view, fault, restart);
            if !self.violations.is_empty() {
                break
            }
        }
        routinator::verif::uninstall();
        let _ = std::fs::remove_dir_all(&self.scratch);
        self.stats.steps = n_steps as u64;
        self.stats.signature = format!(
            "{:?}:{:?}", self.stats.faults, self.stats.probes
        );
        RunResult {
            seed: self.seed, violations: self.violations, stats: self.stats,
            log: self.log, ops: self.ops,
        }
    }
}

pub fn run(
    seed: u64, thorough: bool, mask: &BTreeSet<(usize, usize)>, scratch: &Path,
) -> RunResult {
    SimB::new(seed, "C25", scratch, false).run(mask, thorough)
}


//------------ C24: crash points ---------------------------------------------

impl SimB {
    fn restore_cache(&self, from: &Path) {
        let cache = self.scratch.join("cache");
        let _ = std::fs::remove_dir_all(&cache);
        copy_dir(from, &cache);
    }

    /// Runs the crash-point exploration. Returns the number of kill points
    /// of the interrupted update and the number of images checked.
    pub fn run_crash(
        mut self, mask: &BTreeSet<(usize, usize)>, thorough: bool
    ) -> RunResult {
        use std::sync::atomic::Ordering;
        let kill = self.kill.clone().expect("kill control");
        // Phase 1: bring the client to a synced state.
        let presync = 1 + self.rng.usize(3);
        for step in 0..presync {
            if step > 0 {
                sim::clock::advance(60);
                self.server_step(step);
            }
            let view = self.srv_history.len() - 1;
            self.client_update(step, view, Fault::None, true);
        }
        // Phase 2: the update that gets interrupted.
        let step = presync;
        sim::clock::advance(120);
        self.server_step(step);
        if self.rng.chance(60, 100) {
            // Make sure there is something to do.
            self.mutate_server();
            self.push_history();
        }
        let view = self.srv_history.len() - 1;
        let fault = if self.rng.chance(25, 100) {
            *self.rng.pick(&[
                Fault::DeltaHash, Fault::DeltaTruncated, Fault::SnapshotStatus(500),
                Fault::DeltaAndSnapshotFail, Fault::DeltaBadWithdraw,
            ])
        } else { Fault::None };
        let state = self.srv_history[view].clone();
        let routes = self.routes(&state, fault);
        let pre = self.scratch.join("pre");
        let _ = std::fs::remove_dir_all(&pre);
        copy_dir(&self.scratch.join("cache"), &pre);
        let saved_ok = self.last_ok.clone();
        let saved_ok_objects = self.last_ok_objects.clone();
        let saved_log_len = self.log.len();

        // Counting pass.
        kill.counter.store(0, Ordering::SeqCst);
        kill.at.store(-1, Ordering::SeqCst);
        self.client_update_with(step, view, fault, true, routes.clone());
        let n_points = kill.counter.load(Ordering::SeqCst);
        self.stats.probes.insert("kill-points".into(), n_points as u64);
        if !self.violations.is_empty() {
            return self.finish_crash(step)
        }
        let after_ok = self.last_ok.clone();

        // Which kill points to image.
        let mut points: Vec<i64> = (0..n_points).collect();
        if !thorough && points.len() > 12 {
            let mut prng = Rng::new(mix(&[self.seed, 46]));
            prng.shuffle(&mut points);
            points.truncate(12);
            points.sort();
        }
        let base_history = self.srv_history.clone();
        let base_srv = self.srv.clone();
        let mut images_checked = 0u64;
        let mut seen_images: BTreeSet<Vec<u8>> = BTreeSet::new();
        for &k in &points {
            if mask.contains(&(step, k as usize)) {
                continue
            }
            // Re-run the same update from the same state, imaging at k.
            self.restore_cache(&pre);
            self.last_ok = saved_ok.clone();
            self.last_ok_objects = saved_ok_objects.clone();
            kill.counter.store(0, Ordering::SeqCst);
            kill.at.store(k, Ordering::SeqCst);
            *kill.taken_site.lock().unwrap() = None;
            let ops_len = self.ops.len();
            self.client_update_with(step, view, fault, true, routes.clone());
            self.ops.truncate(ops_len);
            kill.at.store(-1, Ordering::SeqCst);
            let site = kill.taken_site.lock().unwrap().clone();
            let Some(site) = site else { continue };
            if !self.violations.is_empty() {
                break
            }
            // De-duplicate identical images.
            let digest = dir_digest(&kill.image);
            if !seen_images.insert(digest) {
                continue
            }
            images_checked += 1;
            self.stats.fault(&format!("kill@{site}"));
            // The crash: the process is gone, the image is what is left.
            self.restore_cache(&kill.image);
            self.last_ok = saved_ok.clone();
            self.last_ok_objects = saved_ok_objects.clone();
            self.crashed = true;
            self.srv_history = base_history.clone();
            self.srv = base_srv.clone();
            self.ops.push(json!({
                "step": step, "k": k, "op": "kill", "site": site,
                "of": n_points, "interrupted_fault": format!("{fault:?}"),
            }));
            self.log.push(format!(
                "kill at point {k}/{n_points} ({site}) during update to {}#{}",
                &state.session[..8], state.serial
            ));
            // Phase 3: life goes on.
            let mut crng = Rng::new(mix(&[self.seed, 47, k as u64]));
            let n_after = 1 + crng.usize(3);
            for j in 0..n_after {
                let astep = step + 1 + j;
                sim::clock::advance(90);
                if crng.chance(50, 100) {
                    self.server_step(astep);
                }
                // Views: current, or a lagging one (in particular the one
                // the client was synced to before the crash).
                let cur = self.srv_history.len() - 1;
                let v = match crng.below(10) {
                    0..=3 => {
                        // The pre-crash synced version, if known.
                        saved_ok.as_ref().and_then(|ok| {
                            self.srv_history.iter().position(|s| {
                                s.session == ok.0 && s.serial == ok.1
                            })
                        }).unwrap_or(cur)
                    }
                    4 => crng.usize(cur + 1),
                    _ => cur,
                };
                let f = if crng.chance(20, 100) {
                    *crng.pick(FAULTS)
                } else { Fault::None };
                self.client_update(astep, v, f, true);
                if !self.violations.is_empty() {
                    break
                }
            }
            if !self.violations.is_empty() {
                break
            }
        }
        let _ = (after_ok, saved_log_len);
        self.stats.probes.insert("images-checked".into(), images_checked);
        self.finish_crash(step)
    }

    fn finish_crash(mut self, step: usize) -> RunResult {
        let _ = step;
        routinator::verif::uninstall();
        let _ = std::fs::remove_dir_all(&self.scratch);
        self.stats.steps = self.stats.probes.get("images-checked").copied()
            .unwrap_or(0);
        self.stats.signature = format!(
            "{:?}:{:?}", self.stats.faults, self.stats.probes
        );
        RunResult {
            seed: self.seed, violations: self.violations, stats: self.stats,
            log: self.log, ops: self.ops,
        }
    }
}

/// A digest over all files of a directory tree (names and content).
pub fn dir_digest(dir: &Path) -> Vec<u8> {
    fn walk(dir: &Path, base: &Path, ctx: &mut ring::digest::Context) {
        let Ok(read) = std::fs::read_dir(dir) else { return };
        let mut entries: Vec<_> = read.flatten().collect();
        entries.sort_by_key(|e| e.file_name());
        for entry in entries {
            let path = entry.path();
            if path.is_dir() {
                walk(&path, base, ctx);
            }
            else {
                ctx.update(path.strip_prefix(base).unwrap()
                    .to_string_lossy().as_bytes());
                ctx.update(&[0]);
                if let Ok(data) = std::fs::read(&path) {
                    ctx.update(&(data.len() as u64).to_be_bytes());
                    ctx.update(&data);
                }
            }
        }
    }
    let mut ctx = ring::digest::Context::new(&ring::digest::SHA256);
    walk(dir, dir, &mut ctx);
    ctx.finish().as_ref().to_vec()
}

pub fn run_c24(
    seed: u64, thorough: bool, mask: &BTreeSet<(usize, usize)>, scratch: &Path,
) -> RunResult {
    SimB::new(seed, "C24", scratch, true).run_crash(mask, thorough)
}


/// The deltas a notification file lists: serial -> hash (as text).
fn parse_delta_listing(body: &[u8]) -> BTreeMap<u64, String> {
    let text = String::from_utf8_lossy(body);
    let mut res = BTreeMap::new();
    for part in text.split("<delta ").skip(1) {
        let attr = |name: &str| -> Option<&str> {
            let start = part.find(&format!("{name}=\""))? + name.len() + 2;
            let len = part[start..].find('"')?;
            Some(&part[start..start + len])
        };
        if let (Some(serial), Some(hash)) = (attr("serial"), attr("hash")) {
            if let Ok(serial) = serial.parse::<u64>() {
                // A serial listed twice with different hashes: keep both
                // apart so that a comparison never matches by accident.
                res.entry(serial).and_modify(|old: &mut String| {
                    if old != hash { old.push_str("|"); old.push_str(hash); }
                }).or_insert_with(|| hash.to_string());
            }
        }
    }
    res
}


//------------ C29: the fallback policy table --------------------------------

/// One cell of the table.
#[derive(Clone, Copy, Debug)]
pub struct Cell {
    pub policy: usize,      // 0 never, 1 stale, 2 new
    pub outcome: usize,     // 0 updated, 1 current, 2 stale, 3 unavailable
    pub rrdp_on: bool,
    pub rsync_on: bool,
    pub has_notify: bool,
    /// For current and stale: the copy was last confirmed by a 304 answer
    /// (rather than by the 200 answer that created it).
    pub via_304: bool,
    /// For current and stale: between the creation of the copy and the
    /// observed run there was a run in which the notification announced a
    /// newer version but the delta and the snapshot could not be fetched.
    pub via_failed_delta: bool,
}

pub fn c29_cells() -> Vec<Cell> {
    let mut res = Vec::new();
    for policy in 0..3 {
        for outcome in 0..4 {
            for rrdp_on in [true, false] {
                for rsync_on in [true, false] {
                    for has_notify in [true, false] {
                        for (via_304, via_failed_delta) in [
                            (false, false), (true, false), (false, true)
                        ] {
                            if (via_304 || via_failed_delta)
                                && outcome != 1 && outcome != 2
                            {
                                continue
                            }
                            res.push(Cell {
                                policy, outcome, rrdp_on, rsync_on,
                                has_notify, via_304, via_failed_delta
                            });
                        }
                    }
                }
            }
        }
    }
    res
}

/// Executes one cell: produces the RRDP outcome for real and observes
/// whether rsync was asked for the CA's module and which repository type
/// is handed out.
pub fn run_c29(index: usize, scratch: &Path) -> RunResult {
    use routinator::config::FallbackPolicy;
    let cells = c29_cells();
    let cell = cells[index % cells.len()];
    let _ = std::fs::remove_dir_all(scratch);
    std::fs::create_dir_all(scratch.join("cache")).unwrap();
    let start = 1_750_000_000;
    sim::clock::set(start);
    sim::entropy::set(mix(&[index as u64, 48]));
    let policy_name = ["never", "stale", "new"][cell.policy];
    let outcome_name = ["updated", "current", "stale", "unavailable"][cell.outcome];
    let desc = format!(
        "policy {policy_name}, RRDP outcome {outcome_name}{}, rrdp {}, rsync {}, \
         CA {} rpkiNotify",
        if cell.via_304 { " (copy last confirmed by a 304)" }
        else if cell.via_failed_delta {
            " (after a run whose delta and snapshot fetches failed)"
        } else { "" },
        if cell.rrdp_on { "on" } else { "off" },
        if cell.rsync_on { "on" } else { "off" },
        if cell.has_notify { "with" } else { "without" },
    );
    let mut violations = Vec::new();
    let mut log = Vec::new();

    // Servers.
    let http = HttpSrv::default();
    routinator::verif::install(Arc::new(BHandler {
        http: http.clone(), kill: None
    }));
    let mut srv = RrdpSrv::new(HOST, crate::servers::uuid_from(7, 7));
    let repo = "rsync://h0.sim.example/m0/ca/";
    let mut objects = BTreeMap::new();
    objects.insert(format!("{repo}ca.mft"), Bytes::from_static(b"manifest"));
    srv.publish(objects.clone());
    let mut rsync = crate::servers::RsyncSrv::new(scratch.join("rsyncsrv"));
    let files: BTreeMap<String, ([u8; 32], Bytes)> = [(
        "ca/ca.mft".to_string(), ([0u8; 32], Bytes::from_static(b"manifest"))
    )].into_iter().collect();
    rsync.set_module("h0.sim.example/m0", &files);

    let make_config = |rrdp_on: bool, rsync_on: bool| {
        let mut config = Config::default_with_paths(
            Default::default(), scratch.join("cache")
        );
        config.no_rir_tals = true;
        config.disable_rrdp = !rrdp_on;
        config.disable_rsync = !rsync_on;
        config.rrdp_fallback = [
            FallbackPolicy::Never, FallbackPolicy::Stale, FallbackPolicy::New
        ][cell.policy];
        config.rsync_command = std::env::current_exe().unwrap()
            .to_string_lossy().into_owned();
        config.rsync_args = Some(vec![
            format!("--sim-root={}", rsync.root.display())
        ]);
        config.rsync_timeout = None;
        config
    };
    let ca = {
        let spec = CaCertSpec {
            serial: 7, subject_key: 1, issuer: KeyRef::good(1), is_ta: true,
            not_before: 1_700_000_000, not_after: 1_900_000_000,
            res: Res::all(), inherit: false, overclaim_trim: false,
            ca_repository: repo.into(),
            rpki_manifest: format!("{repo}ca.mft"),
            rpki_notify: cell.has_notify.then(notify_uri),
            ca_issuer: String::new(), crl_uri: String::new(),
            same_name: false,
        };
        let cert = Cert::decode(pki::make_ca_cert(&spec)).unwrap().validate_ta(
            TalInfo::from_name("sim".into()).into_arc(), false
        ).expect("validate_ta");
        CaCert::root(
            cert, TalUri::Rsync(pki::rsync_uri(&format!("{repo}ta.cer"))), 0
        ).unwrap()
    };

    // Produce the precondition: a local copy that is current or expired.
    if cell.outcome == 1 || cell.outcome == 2 {
        http.set_routes(srv.routes());
        // The copy is made with RRDP on regardless of the cell.
        let config = make_config(true, false);
        let collector = Collector::new(&config).expect("collector");
        let run = collector.start();
        let ok = matches!(run.repository(&ca), Ok(Some(repo)) if repo.is_rrdp());
        drop(run);
        if cell.has_notify && !ok {
            violations.push(Violation {
                property: "harness", class: "setup".into(),
                message: "could not create the local copy".into(), step: 0
            });
        }
        let (first, second) = if cell.outcome == 1 { (10 * 86400, 10) }
            else { (10, 10 * 86400) };
        if cell.via_304 {
            // A second run to which the server answers 304: this confirms
            // the copy at that time.
            sim::clock::advance(first);
            let _ = http.take_log();
            let collector = Collector::new(&config).expect("collector");
            let run = collector.start();
            let ok = matches!(
                run.repository(&ca), Ok(Some(repo)) if repo.is_rrdp()
            );
            drop(run);
            let got_304 = http.take_log().iter().any(|r| r.status == 304);
            if cell.has_notify && !(ok && got_304) {
                violations.push(Violation {
                    property: "harness", class: "setup".into(),
                    message: format!(
                        "confirming run: ok {ok}, 304 seen {got_304}"
                    ), step: 0
                });
            }
        }
        if cell.via_failed_delta {
            // A run that learns of a newer version but can fetch neither
            // the delta nor the snapshot: the copy stays as it is.
            sim::clock::advance(10);
            let mut newer = objects.clone();
            newer.insert(
                format!("{repo}extra.roa"), Bytes::from_static(b"newer")
            );
            srv.publish(newer);
            let mut routes = srv.routes();
            for (uri, route) in routes.iter_mut() {
                if !uri.ends_with("notification.xml") {
                    *route = Route::status(500);
                }
            }
            http.set_routes(routes);
            let collector = Collector::new(&config).expect("collector");
            let run = collector.start();
            let _ = run.repository(&ca);
            drop(run);
        }
        sim::clock::advance(second);
    }
    // The server state for the observed run.
    if cell.outcome == 0 {
        http.set_routes(srv.routes());
    }
    else {
        let mut routes = srv.routes();
        for route in routes.values_mut() {
            *route = Route::status(503);
        }
        http.set_routes(routes);
    }
    let _ = rsync.take_log();
    let _ = http.take_log();

    let config = make_config(cell.rrdp_on, cell.rsync_on);
    let collector = Collector::new(&config).expect("collector");
    let (handed, run_failed) = {
        let run = collector.start();
        let res = run.repository(&ca);
        match res {
            Ok(Some(repo)) => {
                (Some(if repo.is_rrdp() { "rrdp" } else { "rsync" }), false)
            }
            Ok(None) => (None, false),
            Err(_) => (None, true),
        }
    };
    routinator::verif::uninstall();
    let rsync_used = !rsync.take_log().is_empty();
    let rrdp_asked = !http.take_log().is_empty();

    // The table.
    let (want_rsync, want_handed): (bool, Option<&str>) = {
        let rrdp_applies = cell.has_notify && cell.rrdp_on;
        if !rrdp_applies {
            if cell.rsync_on { (true, Some("rsync")) } else { (false, None) }
        }
        else {
            let fallback = match cell.outcome {
                0 => None,                                // updated
                1 => Some(false),                         // current
                2 => Some(cell.policy == 1),              // stale
                _ => Some(cell.policy != 0),              // unavailable
            };
            match fallback {
                None => (false, Some("rrdp")),
                Some(true) if cell.rsync_on => (true, Some("rsync")),
                Some(_) => (false, None),
            }
        }
    };
    log.push(format!(
        "{desc}: rsync used {rsync_used}, RRDP asked {rrdp_asked}, handed out \
         {handed:?} (table: rsync {want_rsync}, handed out {want_handed:?})"
    ));
    let mut push = |class: &str, msg: String| {
        log.push(format!("VIOLATION C29 {class}: {msg}"));
        violations.push(Violation {
            property: "C29", class: class.into(), message: msg, step: 0
        });
    };
    if run_failed {
        push("run-failed", format!("{desc}: repository() failed"));
    }
    else {
        if rsync_used != want_rsync {
            push("rsync-use", format!(
                "{desc}: rsync {} for the CA's module, the policy table says \
                 it {}", if rsync_used { "was used" } else { "was not used" },
                if want_rsync { "must be" } else { "must not be" }
            ));
        }
        if handed != want_handed {
            push("repository-kind", format!(
                "{desc}: handed out {handed:?}, table says {want_handed:?}"
            ));
        }
        if !(cell.has_notify && cell.rrdp_on) && rrdp_asked {
            push("rrdp-asked", format!(
                "{desc}: RRDP request although RRDP does not apply"
            ));
        }
    }
    let _ = std::fs::remove_dir_all(scratch);
    let mut stats = Stats::default();
    stats.steps = 1;
    stats.fault(outcome_name);
    stats.signature = desc.clone();
    RunResult {
        seed: index as u64, violations, stats, log,
        ops: vec![json!({"step": 0, "op": "cell", "cell": desc})],
    }
}

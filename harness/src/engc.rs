//! Engine C: served versions against lagging clients.
//!
//! Drives the real `SharedHistory` only through the server's real update
//! sequence (`Server::process_once`), with data supplied through local
//! exception files, and queries it like RTR and HTTP clients do.

use std::collections::{BTreeMap, BTreeSet};
use std::path::Path;
use std::sync::{Arc, Mutex};
use futures::FutureExt;
use routinator::config::Config;
use routinator::engine::Engine;
use routinator::http::verif_api::{Request, State as HttpState};
use routinator::metrics::RtrServerMetrics;
use routinator::operation::Server;
use routinator::payload::{PayloadDelta, PayloadSnapshot, SharedHistory};
use routinator::slurm::LocalExceptions;
use rpki::rtr::payload::{Action, PayloadRef};
use rpki::rtr::server::{NotifySender, PayloadDiff, PayloadSet, PayloadSource};
use rpki::rtr::state::{Serial, State};
use serde_json::{json, Value};
use crate::common::{RunResult, Stats, Violation};
use crate::pki::{self, P4};
use crate::sim::{self, mix, Rng};

#[derive(Clone, Debug)]
pub struct CProfile {
    pub property: &'static str,
    pub history_sizes: Vec<usize>,
    pub steps: (usize, usize),
    pub fail_pct: u64,
    pub nochange_pct: u64,
    pub wrap_starts: bool,
}

/// The forced outcome of the next run, consumed by the hook.
pub struct CHandler {
    pub outcome: Mutex<Option<bool>>,
}

impl routinator::verif::Handler for CHandler {
    fn run_outcome(&self) -> Option<routinator::error::RunFailed> {
        self.outcome.lock().unwrap().take().map(|fatal| {
            if fatal { routinator::error::RunFailed::fatal() }
            else { routinator::error::RunFailed::retry() }
        })
    }
}

fn origin_key(asn: u32, addr: std::net::IpAddr, len: u8, max: u8) -> String {
    format!("o:AS{asn}:{addr}/{len}-{max}")
}

fn payload_key(payload: PayloadRef) -> String {
    match payload {
        PayloadRef::Origin(origin) => origin_key(
            origin.asn.into_u32(), origin.prefix.addr(),
            origin.prefix.prefix_len(), origin.prefix.resolved_max_len()
        ),
        PayloadRef::RouterKey(key) => format!(
            "k:AS{}:{}", key.asn.into_u32(), key.key_identifier
        ),
        PayloadRef::Aspa(aspa) => format!(
            "a:AS{}:{:?}", aspa.customer.into_u32(),
            aspa.providers.iter().map(|a| a.into_u32()).collect::<Vec<_>>()
        ),
    }
}

/// The universe of items of a run: key -> SLURM assertion JSON.
struct Universe {
    origins: Vec<(String, Value)>,
    keys: Vec<(String, Value)>,
}

impl Universe {
    fn new(rng: &mut Rng) -> Self {
        let mut origins = Vec::new();
        for i in 0..14u32 {
            let asn = 64496 + rng.below(4) as u32;
            let p = P4::new((192u32 << 24) | (i << 16) | ((rng.below(4) as u32) << 8), 24);
            let max = 24 + rng.below(3) as u8;
            let addr = std::net::IpAddr::V4(std::net::Ipv4Addr::from(p.addr));
            origins.push((
                origin_key(asn, addr, 24, max),
                json!({"asn": asn, "prefix": p.to_string(),
                       "maxPrefixLength": max})
            ));
        }
        origins.sort_by(|a, b| a.0.cmp(&b.0));
        origins.dedup_by(|a, b| a.0 == b.0);
        let mut keys = Vec::new();
        for ec in 0..pki::N_EC {
            let key = pki::pool().ec_pub(ec);
            let asn = 65000 + rng.below(3) as u32;
            keys.push((
                format!("k:AS{asn}:{}", key.key_identifier()),
                json!({
                    "asn": asn,
                    "SKI": rpki::util::base64::Slurm.encode(
                        key.key_identifier().as_slice()
                    ),
                    "routerPublicKey": rpki::util::base64::Slurm.encode(
                        &key.to_info_bytes()
                    ),
                })
            ));
        }
        Universe { origins, keys }
    }

    fn slurm(&self, data: &BTreeSet<String>) -> String {
        let origins: Vec<&Value> = self.origins.iter().filter(|(k, _)| {
            data.contains(k)
        }).map(|(_, v)| v).collect();
        let keys: Vec<&Value> = self.keys.iter().filter(|(k, _)| {
            data.contains(k)
        }).map(|(_, v)| v).collect();
        json!({
            "slurmVersion": 1,
            "validationOutputFilters": {
                "prefixFilters": [], "bgpsecFilters": []
            },
            "locallyAddedAssertions": {
                "prefixAssertions": origins, "bgpsecAssertions": keys
            }
        }).to_string()
    }

    fn all(&self) -> Vec<String> {
        self.origins.iter().chain(self.keys.iter()).map(|x| x.0.clone())
            .collect()
    }
}

/// What the model knows about an issued version.
#[derive(Clone)]
struct Version {
    serial: u32,
    data: BTreeSet<String>,
    snapshot: Arc<PayloadSnapshot>,
    /// Can the model vouch that this serial was issued with `data`?
    phantom: bool,
}

/// A response a client remembers.
#[derive(Clone, Debug)]
struct Seen {
    etag: Option<String>,
    last_modified: Option<String>,
    data: BTreeSet<String>,
}

pub struct SimC {
    seed: u64,
    profile: CProfile,
    rng: Rng,
    config: Config,
    engine: Engine,
    history: SharedHistory,
    notify: NotifySender,
    http: HttpState,
    handler: Arc<CHandler>,
    universe: Universe,
    keep: usize,
    start_serial: u32,
    versions: Vec<Version>,
    changes: usize,
    data: BTreeSet<String>,
    seen: Vec<Seen>,
    initial_done: bool,
    now_ns: i64,
    stats: Stats,
    log: Vec<String>,
    ops: Vec<Value>,
    violations: Vec<Violation>,
}

fn http_get(
    http: &HttpState, uri: &str, headers: &[(&str, &str)], head: bool,
) -> (u16, BTreeMap<String, String>, Vec<u8>) {
    use http_body_util::BodyExt;
    let mut builder = http::Request::builder().uri(uri)
        .method(if head { "HEAD" } else { "GET" });
    for (name, value) in headers {
        builder = builder.header(*name, *value);
    }
    let (parts, _) = builder.body(()).unwrap().into_parts();
    let req = Request::new(parts, None);
    let response = futures::executor::block_on(http.handle_request(req));
    let response = response.into_hyper().unwrap();
    let status = response.status().as_u16();
    let headers: BTreeMap<String, String> = response.headers().iter().map(
        |(k, v)| (k.as_str().to_ascii_lowercase(),
                  String::from_utf8_lossy(v.as_bytes()).into_owned())
    ).collect();
    let body = futures::executor::block_on(response.into_body().collect())
        .unwrap().to_bytes().to_vec();
    (status, headers, body)
}

fn json_item_key(item: &Value) -> Option<String> {
    match item["type"].as_str()? {
        "routeOrigin" => {
            let asn = item["asn"].as_str()?.trim_start_matches("AS");
            let prefix = item["prefix"].as_str()?;
            let max = item["maxLength"].as_u64()?;
            Some(format!("o:AS{asn}:{prefix}-{max}"))
        }
        "routerKey" => {
            let asn = item["asn"].as_str()?.trim_start_matches("AS");
            Some(format!("k:AS{asn}:{}", item["keyIdentifier"].as_str()?))
        }
        "aspa" => Some(format!("a:{}", item["customerAsn"])),
        _ => None
    }
}

impl SimC {
    pub fn new(seed: u64, profile: CProfile, scratch: &Path) -> Self {
        let _ = std::fs::remove_dir_all(scratch);
        std::fs::create_dir_all(scratch.join("cache")).unwrap();
        let mut rng = Rng::new(mix(&[seed, 11]));
        let start = 1_750_000_000 + rng.below(10_000_000) as i64;
        sim::clock::set(start);
        sim::entropy::set(mix(&[seed, 12]));

        let keep = *rng.pick(&profile.history_sizes);
        let mut config = Config::default_with_paths(
            Default::default(), scratch.join("cache")
        );
        config.no_rir_tals = true;
        config.exceptions = vec![scratch.join("exceptions.json")];
        config.history_size = keep;
        config.refresh = std::time::Duration::from_secs(
            *rng.pick(&[1, 10, 600, 86400])
        );
        config.enable_bgpsec = true;
        config.validation_threads = 1;
        let handler = Arc::new(CHandler { outcome: Mutex::new(None) });
        routinator::verif::install(handler.clone());
        let engine = Engine::new(&config, false).expect("engine");
        let history = SharedHistory::from_config(&config);
        let start_serial = if profile.wrap_starts {
            match rng.below(5) {
                0 => 0,
                1 => 0x7FFF_FFFF - rng.below(6) as u32,
                2 => 0x8000_0000u32.wrapping_add(rng.below(4) as u32),
                3 => u32::MAX - rng.below(8) as u32,
                _ => rng.next_u64() as u32,
            }
        } else { 0 };
        if start_serial != 0 {
            history.verif_seed_serial(Serial(start_serial));
        }
        let notify = NotifySender::new();
        let http = HttpState::new(
            &config, history.clone(),
            Arc::new(RtrServerMetrics::new(false)), None, notify.clone()
        );
        let universe = Universe::new(&mut rng);
        let mut sim = SimC {
            seed, profile, rng, config, engine, history, notify, http,
            handler, universe, keep, start_serial,
            versions: Vec::new(), changes: 0,
            data: BTreeSet::new(), seen: Vec::new(), initial_done: false,
            now_ns: start * 1_000_000_000,
            stats: Stats::default(), log: Vec::new(), ops: Vec::new(),
            violations: Vec::new(),
        };
        sim.log.push(format!(
            "history-size {keep}, start serial {start_serial}, refresh {:?}",
            sim.config.refresh
        ));
        sim
    }

    fn violation(&mut self, property: &'static str, class: &str, step: usize, msg: String) {
        self.log.push(format!("VIOLATION {property} {class}: {msg}"));
        self.violations.push(Violation {
            property, class: class.into(), message: msg, step
        });
    }

    fn cur_serial(&self) -> u32 {
        self.versions.last().map(|v| v.serial).unwrap_or(self.start_serial)
    }

    fn session(&self) -> u64 {
        self.history.read().session()
    }

    fn real_data(&self) -> (State, BTreeSet<String>) {
        let (state, mut set) = self.history.full();
        let mut res = BTreeSet::new();
        while let Some(item) = set.next() {
            res.insert(payload_key(item));
        }
        (state, res)
    }

    /// One server update cycle with the given data.
    fn update(&mut self, step: usize, k: usize, kind: &str) {
        let before = self.observe();
        std::fs::write(
            self.config.exceptions[0].clone(), self.universe.slurm(&self.data)
        ).unwrap();
        let exceptions = LocalExceptions::load(&self.config, true)
            .expect("exceptions");
        let fail = match kind {
            "fail-retry" => Some(false),
            "fail-fatal" => Some(true),
            _ => None
        };
        *self.handler.outcome.lock().unwrap() = fail;
        let pending = self.notify.subscribe();
        let initial = !self.initial_done;
        let res = Server::verif_process_once(
            &self.config, &self.engine, &self.history, &mut self.notify,
            &exceptions, false,
        );
        let _ = initial;
        self.ops.push(json!({"step": step, "k": k, "op": kind,
                             "items": self.data.len()}));
        self.stats.fault(kind);
        let mut pending = pending;
        let woken = pending.recv().now_or_never().is_some();
        match (res, fail) {
            (Err(_), Some(_)) => {
                // C33: nothing may have changed.
                let after = self.observe();
                if before != after {
                    self.violation("C33", "changed-by-failed-run", step, format!(
                        "failed run changed served state: before {before:?} \
                         after {after:?}"
                    ));
                }
                if woken {
                    self.violation("C33", "notified-by-failed-run", step,
                        "failed run sent a change notification".into());
                }
                self.log.push(format!("step {step}.{k}: {kind} -> failed as forced"));
            }
            (Ok(()), None) => {
                let (state, real) = self.real_data();
                let changed = self.versions.last().map(|v| v.data != self.data)
                    .unwrap_or(false);
                let first = self.versions.is_empty();
                if changed { self.changes += 1; }
                let want_serial = if first { self.start_serial } else {
                    self.cur_serial().wrapping_add(changed as u32)
                };
                // C14: serial arithmetic.
                if u32::from(state.serial()) != want_serial {
                    self.violation("C14", "serial", step, format!(
                        "serial after run is {} but model expects {want_serial} \
                         (changed: {changed}, first: {first})", state.serial()
                    ));
                }
                if real != self.data {
                    self.violation("C15", "data", step, format!(
                        "served data differs from the installed data set"
                    ));
                }
                let retained = self.history.verif_retained();
                let bound = self.keep.max(1);
                if retained > bound {
                    self.violation("C14", "retention", step, format!(
                        "{retained} change sets retained with history-size {} \
                         (bound {bound})", self.keep
                    ));
                }
                if woken != (changed || first) {
                    // Only a missing notification after a change matters.
                    if changed && !woken {
                        self.violation("C17", "no-notification", step,
                            "data changed but no notification was sent".into());
                    }
                }
                let snapshot = self.history.read().current().unwrap();
                if first || changed {
                    self.versions.push(Version {
                        serial: want_serial, data: self.data.clone(),
                        snapshot, phantom: false,
                    });
                }
                else if let Some(last) = self.versions.last_mut() {
                    last.snapshot = snapshot;
                }
                self.initial_done = true;
                self.log.push(format!(
                    "step {step}.{k}: {kind} -> serial {want_serial}, {} items, \
                     retained {retained}", self.data.len()
                ));
            }
            (Ok(()), Some(_)) => {
                self.violation("C33", "forced-failure-ignored", step,
                    "harness: forced failure did not fail the run".into());
            }
            (Err(err), None) => {
                self.violation("harness", "unexpected-failure", step, format!(
                    "run failed unexpectedly (fatal={})", err.is_fatal()
                ));
            }
        }
    }

    /// Everything a client can observe about the served state.
    fn observe(&self) -> Vec<String> {
        let mut res = Vec::new();
        res.push(format!("ready={}", self.history.ready()));
        let state = self.history.notify();
        res.push(format!("session={} serial={}", state.session(), state.serial()));
        let (_, data) = self.real_data();
        res.push(format!("data={data:?}"));
        res.push(format!("retained={}", self.history.verif_retained()));
        let (status, headers, _) = http_get(&self.http, "/json", &[], true);
        res.push(format!(
            "json status={status} etag={:?} lm={:?}",
            headers.get("etag"), headers.get("last-modified")
        ));
        res.push(format!("created={:?}", self.history.read().created()));
        res
    }

    fn advance_clock(&mut self, step: usize) {
        let delta_ns: i64 = match self.rng.below(8) {
            0 => 0,
            1 => self.rng.range(1, 900) * 1_000_000,
            2..=5 => self.rng.range(1, 5) * 1_000_000_000,
            6 => self.rng.range(60, 7200) * 1_000_000_000,
            _ => -self.rng.range(1, 3600) * 1_000_000_000,
        };
        self.now_ns += delta_ns;
        self.stats.sim_seconds += delta_ns.abs() / 1_000_000_000;
        sim::clock::set_ns(self.now_ns);
        self.ops.push(json!({"step": step, "op": "clock", "delta_ns": delta_ns}));
    }

    /// Candidate client serials around the interesting points.
    fn client_serials(&mut self) -> Vec<u32> {
        let cur = self.cur_serial();
        let mut res = vec![
            cur, cur.wrapping_sub(1), cur.wrapping_add(1),
            cur.wrapping_add(0x8000_0000), cur.wrapping_add(0x7FFF_FFFF),
            cur.wrapping_add(0x8000_0001), cur.wrapping_sub(0x7FFF_FFFF),
            self.rng.next_u64() as u32, 0, u32::MAX,
        ];
        for version in &self.versions {
            res.push(version.serial);
        }
        let keep = self.keep as u32;
        res.push(cur.wrapping_sub(keep));
        res.push(cur.wrapping_sub(keep.wrapping_add(1)));
        res.push(cur.wrapping_sub(keep.wrapping_sub(1)));
        res.sort();
        res.dedup();
        res
    }

    fn version_at(&self, serial: u32) -> Option<&Version> {
        self.versions.iter().find(|v| v.serial == serial)
    }

    fn must_serve(&self, serial: u32) -> bool {
        let cur = self.cur_serial();
        let n = self.keep.max(1).min(self.changes) as u32;
        // The targets of the last n changes, plus the current serial.
        let back = cur.wrapping_sub(serial);
        if serial == cur { return true }
        n > 0 && back < n
    }

    /// Queries as clients do and checks C12/C13.
    fn queries(&mut self, step: usize) {
        if self.versions.is_empty() {
            // C15: nothing is served before the first run.
            if self.history.ready() {
                self.violation("C15", "ready-early", step,
                    "history claims ready before the first run".into());
            }
            let (status, _, _) = http_get(&self.http, "/json", &[], false);
            let (status2, _, _) = http_get(&self.http, "/json-delta", &[], false);
            if status != 503 || status2 != 503 {
                self.violation("C15", "served-early", step, format!(
                    "data endpoints answer {status}/{status2} before the \
                     first validation completed"
                ));
            }
            return
        }
        let cur = self.cur_serial();
        let cur_data = self.data.clone();
        let session = self.session();
        let rtr_session = session as u16;
        let serials = self.client_serials();
        let cur_snapshot = self.versions.last().unwrap().snapshot.clone();
        for serial in serials {
            let known = self.version_at(serial).cloned();
            let seed_phantom = self.start_serial != 0
                && serial == self.start_serial.wrapping_sub(1);
            // --- PayloadSource::diff
            let res = self.history.diff(
                State::from_parts(rtr_session, Serial(serial))
            );
            self.stats.probe(if res.is_some() { "diff-served" } else { "diff-refused" });
            match res {
                None => {
                    if self.must_serve(serial) && known.is_some() {
                        self.violation("C13", "refused-retained", step, format!(
                            "client at serial {serial} (current {cur}, \
                             history-size {}, {} changes so far) was refused",
                            self.keep, self.changes
                        ));
                    }
                }
                Some((state, mut diff)) => {
                    let mut actions = Vec::new();
                    while let Some((payload, action)) = diff.next() {
                        actions.push((payload_key(payload), action));
                    }
                    if u32::from(state.serial()) != cur {
                        self.violation("C13", "wrong-serial", step, format!(
                            "diff for serial {serial} tagged with serial {} \
                             instead of {cur}", state.serial()
                        ));
                    }
                    match known {
                        None if seed_phantom => { }
                        None => {
                            self.violation("C13", "served-unknown", step, format!(
                                "client presenting never-issued serial {serial} \
                                 (current {cur}) received a change set with {} \
                                 actions instead of a refusal", actions.len()
                            ));
                        }
                        Some(version) => {
                            // Apply.
                            let mut data = version.data.clone();
                            let mut ok = true;
                            for (key, action) in &actions {
                                match action {
                                    Action::Announce => {
                                        if !data.insert(key.clone()) { ok = false }
                                    }
                                    Action::Withdraw => {
                                        if !data.remove(key) { ok = false }
                                    }
                                }
                            }
                            if data != cur_data || !ok {
                                self.violation("C13", "inexact", step, format!(
                                    "change set from serial {serial} to {cur} \
                                     does not turn the client's data into the \
                                     current data (clean application: {ok})"
                                ));
                            }
                            if serial == cur && !actions.is_empty() {
                                self.violation("C13", "nonempty-current", step,
                                    "client at current serial got a non-empty \
                                     change set".into());
                            }
                            // C12: merged == direct.
                            if serial != cur {
                                let direct = PayloadDelta::construct(
                                    &version.snapshot, &cur_snapshot,
                                    Serial(cur.wrapping_sub(1))
                                );
                                let direct: Vec<(String, Action)> = match direct.as_ref() {
                                    Some(delta) => delta.actions().map(
                                        |(p, a)| (payload_key(p), a)
                                    ).collect(),
                                    None => Vec::new()
                                };
                                if cur.wrapping_sub(serial) >= 2 {
                                    self.stats.probe("merged-diff-checked");
                                }
                                if direct != actions {
                                    self.violation("C12", "merge-differs", step, format!(
                                        "served change set {serial}->{cur} \
                                         ({} actions) differs from the direct \
                                         change set ({} actions)",
                                        actions.len(), direct.len()
                                    ));
                                }
                            }
                        }
                    }
                }
            }
            // --- foreign session
            if self.history.diff(State::from_parts(
                rtr_session.wrapping_add(1), Serial(serial)
            )).is_some() {
                self.violation("C13", "foreign-session", step, format!(
                    "client with foreign session got a change set for {serial}"
                ));
            }
            // --- HTTP /json-delta
            let uri = format!("/json-delta?session={session}&serial={serial}");
            let (status, _, body) = http_get(&self.http, &uri, &[], false);
            if status != 200 {
                self.violation("C13", "http-status", step, format!(
                    "{uri} answered {status}"
                ));
                continue
            }
            let doc: Value = match serde_json::from_slice(&body) {
                Ok(doc) => doc,
                Err(err) => {
                    self.violation("C13", "http-json", step, format!(
                        "{uri}: body is not JSON: {err}"
                    ));
                    continue
                }
            };
            let announced: BTreeSet<String> = doc["announced"].as_array()
                .map(|a| a.iter().filter_map(json_item_key).collect())
                .unwrap_or_default();
            if doc["serial"].as_u64() != Some(cur as u64) {
                self.violation("C13", "http-serial", step, format!(
                    "{uri}: serial {} instead of {cur}", doc["serial"]
                ));
            }
            if doc["reset"].as_bool() == Some(true) {
                if announced != cur_data {
                    self.violation("C13", "http-reset-data", step, format!(
                        "{uri}: reset does not carry the current data"
                    ));
                }
                if self.must_serve(serial) && self.version_at(serial).is_some() {
                    self.violation("C13", "http-refused-retained", step, format!(
                        "{uri}: reset although serial must be served"
                    ));
                }
            }
            else {
                let withdrawn: BTreeSet<String> = doc["withdrawn"].as_array()
                    .map(|a| a.iter().filter_map(json_item_key).collect())
                    .unwrap_or_default();
                match self.version_at(serial) {
                    None if seed_phantom => { }
                    None => {
                        self.violation("C13", "http-served-unknown", step, format!(
                            "{uri}: delta served for never-issued serial"
                        ));
                    }
                    Some(version) => {
                        let mut data = version.data.clone();
                        for key in &withdrawn { data.remove(key); }
                        for key in &announced { data.insert(key.clone()); }
                        if data != cur_data {
                            self.violation("C13", "http-inexact", step, format!(
                                "{uri}: delta does not lead to current data"
                            ));
                        }
                    }
                }
            }
        }
        // --- C16: conditional requests with earlier validators.
        let (status, headers, body) = http_get(&self.http, "/json", &[], false);
        if status == 200 {
            let now_seen = Seen {
                etag: headers.get("etag").cloned(),
                last_modified: headers.get("last-modified").cloned(),
                data: cur_data.iter().filter(|k| k.starts_with("o:")).cloned().collect(),
            };
            let _ = body;
            let seen = self.seen.clone();
            for old in &seen {
                let mut variants: Vec<Vec<(&str, &str)>> = Vec::new();
                if let Some(etag) = old.etag.as_deref() {
                    variants.push(vec![("If-None-Match", etag)]);
                }
                if let Some(lm) = old.last_modified.as_deref() {
                    variants.push(vec![("If-Modified-Since", lm)]);
                }
                if let (Some(etag), Some(lm)) = (
                    old.etag.as_deref(), old.last_modified.as_deref()
                ) {
                    variants.push(vec![
                        ("If-None-Match", etag), ("If-Modified-Since", lm)
                    ]);
                }
                for headers in variants {
                    let (status, _, _) = http_get(
                        &self.http, "/json", &headers, false
                    );
                    self.stats.probe(if status == 304 { "cond-304" } else { "cond-200" });
                    let same_version = old.etag == now_seen.etag
                        && old.last_modified == now_seen.last_modified;
                    if status == 304 && !same_version
                        && old.data != now_seen.data
                    {
                        self.violation("C16", "stale-304", step, format!(
                            "304 for validators {headers:?} of an earlier \
                             version whose data differs from the served data"
                        ));
                    }
                }
            }
            if self.seen.last().map(|s| s.etag != now_seen.etag
                || s.last_modified != now_seen.last_modified).unwrap_or(true)
            {
                self.seen.push(now_seen);
                if self.seen.len() > 6 { self.seen.remove(0); }
            }
        }
    }

    pub fn run(mut self, mask: &BTreeSet<(usize, usize)>) -> RunResult {
        let n_steps = self.profile.steps.0
            + self.rng.usize(self.profile.steps.1 - self.profile.steps.0 + 1);
        let all = self.universe.all();
        // Start with a random subset.
        for item in &all {
            if self.rng.chance(40, 100) { self.data.insert(item.clone()); }
        }
        self.queries(0);
        for step in 0..n_steps {
            let mut srng = Rng::new(mix(&[self.seed, 900, step as u64]));
            if mask.contains(&(step, 0)) {
                continue
            }
            self.advance_clock(step);
            let roll = srng.below(100);
            let kind = if step > 0 && roll < self.profile.fail_pct {
                if srng.chance(50, 100) { "fail-retry" } else { "fail-fatal" }
            }
            else if step > 0 && roll < self.profile.fail_pct + self.profile.nochange_pct {
                "no-change"
            }
            else {
                "change"
            };
            if kind == "change" || kind.starts_with("fail") {
                // Toggle some items (a failing run sees new input, too).
                let saved = self.data.clone();
                let n = 1 + srng.usize(4);
                for _ in 0..n {
                    let item = srng.pick(&all).clone();
                    if !self.data.remove(&item) {
                        self.data.insert(item);
                    }
                }
                if kind != "change" {
                    self.update(step, 0, kind);
                    self.data = saved;
                }
                else {
                    self.update(step, 0, kind);
                }
            }
            else {
                self.update(step, 0, kind);
            }
            self.queries(step);
            if self.violations.iter().any(|v| v.property == "harness") {
                break
            }
        }
        routinator::verif::uninstall();
        self.stats.steps = n_steps as u64;
        self.stats.signature = format!(
            "k{}:s{}:v{}:c{}:{:?}", self.keep, self.start_serial >> 28,
            self.versions.len(), self.changes, self.stats.faults
        );
        RunResult {
            seed: self.seed,
            violations: self.violations,
            stats: self.stats,
            log: self.log,
            ops: self.ops,
        }
    }
}

pub fn profile(property: &str, thorough: bool) -> Option<CProfile> {
    let steps = if thorough { (8, 40) } else { (4, 18) };
    let base = CProfile {
        property: "C13",
        history_sizes: vec![1, 2, 3, 10],
        steps, fail_pct: 10, nochange_pct: 15, wrap_starts: true,
    };
    Some(match property {
        "C12" => CProfile { property: "C12", history_sizes: vec![2, 3, 5, 10, 40], ..base },
        "C13" => CProfile { property: "C13", ..base },
        "C14" => CProfile {
            property: "C14", history_sizes: vec![0, 1, 2, 3, 10, 65535],
            nochange_pct: 30, ..base
        },
        "C33" => CProfile { property: "C33", fail_pct: 40, ..base },
        _ => return None
    })
}

pub fn run(
    seed: u64, profile: &CProfile, mask: &BTreeSet<(usize, usize)>,
    scratch: &Path,
) -> RunResult {
    let sim = SimC::new(seed, profile.clone(), scratch);
    let res = sim.run(mask);
    let _ = std::fs::remove_dir_all(scratch);
    res
}

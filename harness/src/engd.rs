//! Engine D: schedule exploration under shuttle.
//!
//! Small fixed-shape scenarios over the real code, built with the shuttle
//! synchronisation primitives (`--cfg routinator_verif_shuttle`). One run =
//! one schedule decided by a seeded scheduler (random or PCT).

use std::collections::{BTreeMap, BTreeSet};
use std::path::{Path, PathBuf};
use std::sync::{Arc, Mutex as StdMutex};
use routinator::config::Config;
use routinator::engine::Engine;
use routinator::http::verif_api::{Request, State as HttpState};
use routinator::metrics::RtrServerMetrics;
use routinator::operation::Server;
use routinator::payload::SharedHistory;
use routinator::slurm::LocalExceptions;
use rpki::rtr::payload::{Action, PayloadRef};
use rpki::rtr::server::{NotifySender, PayloadDiff, PayloadSet, PayloadSource};
use rpki::rtr::state::{Serial, State};
use serde_json::{json, Value};
use shuttle::scheduler::{PctScheduler, RandomScheduler};
use crate::common::{RunResult, Stats, Violation};
use crate::sim::{self, mix, Rng};

type Found = Arc<StdMutex<Vec<(String, String)>>>;

/// The order in which tasks passed their observable steps in this schedule.
static TRACE: StdMutex<Vec<String>> = StdMutex::new(Vec::new());

fn trace(what: &str) {
    let task = shuttle::current::get_current_task().map(|t| {
        format!("{t:?}")
    }).unwrap_or_default();
    TRACE.lock().unwrap().push(format!("{task}:{what}"));
}

/// Hook handler: every hook point is a scheduling point.
struct DHandler {
    http: Option<crate::servers::HttpSrv>,
}

impl routinator::verif::Handler for DHandler {
    fn point(&self, site: &'static str) {
        trace(site);
        shuttle::thread::yield_now();
    }

    fn http(
        &self, req: &routinator::verif::HttpRequest
    ) -> Option<routinator::verif::HttpResponse> {
        let http = self.http.as_ref()?;
        trace(&req.uri);
        // A request takes a while: let others run.
        shuttle::thread::yield_now();
        let res = http.respond(
            &req.uri, req.etag.as_deref(), req.if_modified_since.as_deref()
        );
        shuttle::thread::yield_now();
        Some(res)
    }
}

fn slurm(items: &[(u32, u32)]) -> String {
    // (asn, third octet)
    let assertions: Vec<Value> = items.iter().map(|(asn, o)| json!({
        "asn": asn, "prefix": format!("192.0.{o}.0/24"), "maxPrefixLength": 24
    })).collect();
    json!({
        "slurmVersion": 1,
        "validationOutputFilters": {"prefixFilters": [], "bgpsecFilters": []},
        "locallyAddedAssertions": {
            "prefixAssertions": assertions, "bgpsecAssertions": []
        }
    }).to_string()
}

fn key_of(payload: PayloadRef) -> String {
    match payload {
        PayloadRef::Origin(origin) => format!(
            "AS{}:{}/{}", origin.asn.into_u32(), origin.prefix.addr(),
            origin.prefix.prefix_len()
        ),
        _ => "other".into()
    }
}

fn data_keys(items: &[(u32, u32)]) -> BTreeSet<String> {
    items.iter().map(|(asn, o)| format!("AS{asn}:192.0.{o}.0/24")).collect()
}

/// A history environment shared by the C15/C16/C17 scenarios.
struct HistEnv {
    config: Config,
    engine: Engine,
    history: SharedHistory,
    notify: NotifySender,
    http: HttpState,
}

impl HistEnv {
    fn new(scratch: &Path) -> Self {
        Self::with_history_size(scratch, 10)
    }

    fn with_history_size(scratch: &Path, history_size: usize) -> Self {
        let _ = std::fs::remove_dir_all(scratch);
        std::fs::create_dir_all(scratch.join("cache")).unwrap();
        let mut config = Config::default_with_paths(
            Default::default(), scratch.join("cache")
        );
        config.no_rir_tals = true;
        config.exceptions = vec![scratch.join("exceptions.json")];
        config.validation_threads = 1;
        config.history_size = history_size;
        let engine = Engine::new(&config, false).expect("engine");
        let history = SharedHistory::from_config(&config);
        let notify = NotifySender::new();
        let http = HttpState::new(
            &config, history.clone(),
            Arc::new(RtrServerMetrics::new(false)), None, notify.clone()
        );
        HistEnv { config, engine, history, notify, http }
    }

    fn update(&self, items: &[(u32, u32)]) {
        trace("update-begin");
        std::fs::write(&self.config.exceptions[0], slurm(items)).unwrap();
        let exceptions = LocalExceptions::load(&self.config, true).unwrap();
        let mut notify = self.notify.clone();
        Server::verif_process_once(
            &self.config, &self.engine, &self.history, &mut notify,
            &exceptions, false,
        ).expect("process_once");
        trace("update-end");
    }

    fn get(
        &self, uri: &str, headers: &[(&str, &str)]
    ) -> (u16, BTreeMap<String, String>, Vec<u8>) {
        use http_body_util::BodyExt;
        let mut builder = http::Request::builder().uri(uri).method("GET");
        for (name, value) in headers {
            builder = builder.header(*name, *value);
        }
        let (parts, _) = builder.body(()).unwrap().into_parts();
        let response = shuttle::future::block_on(
            self.http.handle_request(Request::new(parts, None))
        ).into_hyper().unwrap();
        let status = response.status().as_u16();
        trace(&format!("{uri} -> {status}"));
        let headers = response.headers().iter().map(|(k, v)| (
            k.as_str().to_ascii_lowercase(),
            String::from_utf8_lossy(v.as_bytes()).into_owned()
        )).collect();
        // Consume the streamed body frame by frame with scheduling points
        // in between.
        let mut body = response.into_body();
        let mut data = Vec::new();
        loop {
            let frame = shuttle::future::block_on(body.frame());
            match frame {
                Some(Ok(frame)) => {
                    if let Ok(chunk) = frame.into_data() {
                        data.extend_from_slice(&chunk);
                    }
                    shuttle::thread::yield_now();
                }
                _ => break
            }
        }
        (status, headers, data)
    }
}

fn json_origins(doc: &Value, field: &str) -> BTreeSet<String> {
    doc[field].as_array().map(|list| list.iter().filter_map(|item| {
        Some(format!(
            "{}:{}", item["asn"].as_str()?, item["prefix"].as_str()?
        ))
    }).collect()).unwrap_or_default()
}

// Every data set has a different number of items, so a response body tells
// which one it carries.
const DATA: [&[(u32, u32)]; 4] = [
    &[(64496, 1), (64496, 2), (64497, 3)],
    &[(64496, 1), (64497, 3), (64498, 4), (64498, 5)],
    &[(64499, 6), (64496, 2)],
    &[(64500, 7), (64496, 2), (64497, 8), (64498, 4), (64499, 9)],
];

/// Which data set a `/json` body carries.
fn data_index(body: &[u8]) -> Option<usize> {
    let doc: Value = serde_json::from_slice(body).ok()?;
    let n = doc["roas"].as_array()?.len();
    DATA.iter().position(|d| d.len() == n)
}

fn scenario_c15(scratch: PathBuf, found: Found, seed: u64) {
    sim::clock::set(1_760_000_000);
    let env = Arc::new(HistEnv::new(&scratch));
    let mut rng = Rng::new(seed);
    let readers = 1 + rng.usize(2);
    let report = move |found: &Found, class: &str, msg: String| {
        found.lock().unwrap().push((class.into(), msg));
    };
    // Before the first run nothing may be served.
    if env.history.ready() {
        report(&found, "ready-early", "ready before first run".into());
    }
    env.update(DATA[0]);
    let session = env.history.read().session();
    let serial0 = u32::from(env.history.read().serial());
    let by_serial: Arc<BTreeMap<u32, BTreeSet<String>>> = Arc::new(
        (0..3u32).map(|i| (serial0.wrapping_add(i), data_keys(DATA[i as usize])))
            .collect()
    );
    let updater = {
        let env = env.clone();
        shuttle::thread::spawn(move || {
            sim::clock::advance(2);
            env.update(DATA[1]);
            sim::clock::advance(2);
            env.update(DATA[2]);
        })
    };
    let mut handles = Vec::new();
    for r in 0..readers {
        let env = env.clone();
        let found = found.clone();
        let by_serial = by_serial.clone();
        let mut rng = Rng::new(mix(&[seed, r as u64]));
        handles.push(shuttle::thread::spawn(move || {
            let report = |class: &str, msg: String| {
                found.lock().unwrap().push((class.into(), msg));
            };
            for _ in 0..3 {
                match rng.below(4) {
                    0 => {
                        let (state, mut set) = env.history.full();
                        let mut data = BTreeSet::new();
                        while let Some(item) = set.next() {
                            data.insert(key_of(item));
                            if data.len() % 2 == 0 { shuttle::thread::yield_now(); }
                        }
                        let serial = u32::from(state.serial());
                        if by_serial.get(&serial) != Some(&data) {
                            report("full-mismatch", format!(
                                "full(): serial {serial} paired with data {data:?}"
                            ));
                        }
                    }
                    1 => {
                        let res = env.history.diff(State::from_parts(
                            session as u16, Serial(serial0)
                        ));
                        if let Some((state, mut diff)) = res {
                            let mut data = by_serial[&serial0].clone();
                            while let Some((item, action)) = diff.next() {
                                match action {
                                    Action::Announce => { data.insert(key_of(item)); }
                                    Action::Withdraw => { data.remove(&key_of(item)); }
                                }
                                shuttle::thread::yield_now();
                            }
                            let serial = u32::from(state.serial());
                            if by_serial.get(&serial) != Some(&data) {
                                report("diff-mismatch", format!(
                                    "diff(): serial {serial} paired with a \
                                     change set leading to {data:?}"
                                ));
                            }
                        }
                    }
                    2 => {
                        let (status, _, body) = env.get(&format!(
                            "/json-delta?session={session}&serial={serial0}"
                        ), &[]);
                        if status == 200 {
                            if let Ok(doc) = serde_json::from_slice::<Value>(&body) {
                                let serial = doc["serial"].as_u64().unwrap_or(0) as u32;
                                let mut data = if doc["reset"] == json!(true) {
                                    BTreeSet::new()
                                } else { by_serial[&serial0].clone() };
                                for key in json_origins(&doc, "withdrawn") {
                                    data.remove(&key);
                                }
                                data.extend(json_origins(&doc, "announced"));
                                if by_serial.get(&serial) != Some(&data) {
                                    report("json-delta-mismatch", format!(
                                        "/json-delta: serial {serial} paired \
                                         with data {data:?}"
                                    ));
                                }
                            }
                            else {
                                report("json-delta-invalid",
                                    "/json-delta body is not JSON".into());
                            }
                        }
                    }
                    _ => {
                        let (status, headers, body) = env.get("/json", &[]);
                        if status == 200 {
                            let etag = headers.get("etag").cloned()
                                .unwrap_or_default();
                            let serial: Option<u32> = etag.trim_matches('"')
                                .rsplit('-').next().and_then(|s| s.parse().ok());
                            if let (Some(serial), Ok(doc)) = (
                                serial, serde_json::from_slice::<Value>(&body)
                            ) {
                                let data = json_origins(&doc, "roas");
                                if by_serial.get(&serial) != Some(&data) {
                                    report("json-mismatch", format!(
                                        "/json: ETag serial {serial} paired \
                                         with data {data:?}"
                                    ));
                                }
                            }
                        }
                    }
                }
            }
        }));
    }
    updater.join().unwrap();
    for handle in handles {
        handle.join().unwrap();
    }
}

fn scenario_c16(scratch: PathBuf, found: Found, seed: u64) {
    sim::clock::set(1_760_000_000);
    let mut rng = Rng::new(seed);
    // The validators must identify a version whatever the number of
    // retained change sets is.
    let history_size = *rng.pick(&[10usize, 10, 2, 1, 0]);
    let env = Arc::new(HistEnv::with_history_size(&scratch, history_size));
    env.update(DATA[0]);
    // One to three further versions, several of them possibly within the
    // same second of the simulated clock.
    let n_updates = 1 + rng.usize(3);
    let advances: Vec<i64> = (0..n_updates).map(|_| {
        *rng.pick(&[0i64, 0, 0, 1, 3])
    }).collect();
    // Version k carries DATA[k]. `started` is the newest version whose
    // installation has begun, `installed` the newest completely installed.
    let started = Arc::new(std::sync::atomic::AtomicUsize::new(0));
    let installed = Arc::new(std::sync::atomic::AtomicUsize::new(0));
    let updater = {
        let env = env.clone();
        let started = started.clone();
        let installed = installed.clone();
        shuttle::thread::spawn(move || {
            for (i, adv) in advances.into_iter().enumerate() {
                sim::clock::advance(adv);
                started.store(i + 1, std::sync::atomic::Ordering::SeqCst);
                env.update(DATA[i + 1]);
                installed.store(i + 1, std::sync::atomic::Ordering::SeqCst);
            }
        })
    };
    let mut handles = Vec::new();
    let clients = 1 + rng.usize(2);
    for _ in 0..clients {
        let env = env.clone();
        let found = found.clone();
        let started = started.clone();
        let installed = installed.clone();
        let variant = rng.below(3);
        let rounds = 1 + rng.usize(3);
        handles.push(shuttle::thread::spawn(move || {
            for _ in 0..rounds {
                // Learn the validators of whatever version is served now.
                let (_, headers0, body0) = env.get("/json", &[]);
                let have = data_index(&body0);
                let etag0 = headers0.get("etag").cloned().unwrap_or_default();
                let lm0 = headers0.get("last-modified").cloned()
                    .unwrap_or_default();
                let headers: Vec<(&str, &str)> = match variant {
                    0 => vec![("If-None-Match", &etag0)],
                    1 => vec![("If-Modified-Since", &lm0)],
                    _ => vec![("If-None-Match", "\"bogus\""),
                              ("If-Modified-Since", &lm0)],
                };
                for _ in 0..2 {
                    let lo = installed.load(std::sync::atomic::Ordering::SeqCst);
                    let (status, resp, _) = env.get("/json", &headers);
                    let hi = started.load(std::sync::atomic::Ordering::SeqCst);
                    if status == 304 {
                        // Whatever the validators look like: the data the
                        // client holds must be the data of a version that
                        // was served at some point of this request.
                        if let Some(have) = have {
                            if !(lo..=hi).contains(&have) {
                                found.lock().unwrap().push((
                                    "stale-304-content".into(),
                                    format!(
                                        "304 Not Modified for validators \
                                         {headers:?} learned with data set \
                                         {have} while only data sets \
                                         {lo}..={hi} were served during the \
                                         request"
                                    )
                                ));
                            }
                        }
                        let etag = resp.get("etag").cloned()
                            .unwrap_or_default();
                        if etag != etag0 {
                            found.lock().unwrap().push((
                                "stale-304".into(),
                                format!(
                                    "304 Not Modified for validators \
                                     {headers:?} of version {etag0} while \
                                     version {etag} (different data) is \
                                     being served"
                                )
                            ));
                        }
                    }
                }
            }
        }));
    }
    updater.join().unwrap();
    for handle in handles {
        handle.join().unwrap();
    }
}

fn scenario_c17(scratch: PathBuf, found: Found, seed: u64) {
    sim::clock::set(1_760_000_000);
    let env = Arc::new(HistEnv::new(&scratch));
    if seed % 4 == 0 {
        // A lagging client after changes that cancel each other out: the
        // served version differs from the presented one, so the request
        // must be answered although nothing else will ever happen (were it
        // to wait, all tasks are blocked: reported as a lost wake-up).
        let mut rng = Rng::new(seed);
        env.update(DATA[0]);
        let (session, serial0) = {
            let read = env.history.read();
            (read.session(), u32::from(read.serial()))
        };
        let flips = 1 + rng.usize(2);
        for _ in 0..flips {
            sim::clock::advance(3);
            env.update(DATA[1]);
            sim::clock::advance(3);
            env.update(DATA[0]);
        }
        let serial_now = u32::from(env.history.read().serial());
        let lag = *rng.pick(&[2u32, 2, 4]).min(&(serial_now.wrapping_sub(serial0)));
        let presented = serial_now.wrapping_sub(lag);
        let client = {
            let env = env.clone();
            let found = found.clone();
            shuttle::thread::spawn(move || {
                let (status, _, _) = env.get(&format!(
                    "/json-delta/notify?session={session}&serial={presented}"
                ), &[]);
                if status != 200 {
                    found.lock().unwrap().push((
                        "wrong-answer".into(),
                        format!("notify returned {status}")
                    ));
                }
            })
        };
        client.join().unwrap();
        return
    }
    env.update(DATA[0]);
    let (session, serial0) = {
        let read = env.history.read();
        (read.session(), u32::from(read.serial()))
    };
    let updater = {
        let env = env.clone();
        shuttle::thread::spawn(move || {
            sim::clock::advance(3);
            env.update(DATA[1]);
        })
    };
    let client = {
        let env = env.clone();
        let found = found.clone();
        shuttle::thread::spawn(move || {
            let (status, _, body) = env.get(&format!(
                "/json-delta/notify?session={session}&serial={serial0}"
            ), &[]);
            let doc: Value = serde_json::from_slice(&body).unwrap_or(json!({}));
            let serial = doc["serial"].as_u64().unwrap_or(u64::MAX);
            if status != 200 || serial != serial0.wrapping_add(1) as u64 {
                found.lock().unwrap().push((
                    "wrong-answer".into(),
                    format!("notify returned {status} serial {serial}")
                ));
            }
        })
    };
    updater.join().unwrap();
    // If the client lost the notification it blocks forever: shuttle
    // reports a deadlock, which the caller turns into a violation.
    client.join().unwrap();
}

fn scenario_c36(_scratch: PathBuf, found: Found, seed: u64) {
    let mut rng = Rng::new(seed);
    let metrics = Arc::new(RtrServerMetrics::new(true));
    let n_threads = 2 + rng.usize(3);
    let addrs: Vec<std::net::IpAddr> = (0..4).map(|i| {
        std::net::IpAddr::V4(std::net::Ipv4Addr::new(10, 0, 0, 10 - i))
    }).collect();
    let mut expect: BTreeMap<std::net::IpAddr, usize> = BTreeMap::new();
    let mut handles = Vec::new();
    for _ in 0..n_threads {
        let n = 1 + rng.usize(2);
        let mine: Vec<std::net::IpAddr> = (0..n).map(|_| {
            *rng.pick(&addrs)
        }).collect();
        for addr in &mine {
            *expect.entry(*addr).or_default() += 1;
        }
        let metrics = metrics.clone();
        handles.push(shuttle::thread::spawn(move || {
            let mut held = Vec::new();
            for addr in mine {
                trace(&format!("get_client {addr}"));
                let client = metrics.get_client(addr);
                client.update(|m| m.inc_current_connections());
                held.push(client);
                shuttle::thread::yield_now();
            }
            held
        }));
    }
    let mut held = Vec::new();
    for handle in handles {
        held.extend(handle.join().unwrap());
    }
    let report = |class: &str, msg: String| {
        found.lock().unwrap().push((class.into(), msg));
    };
    let clients = metrics.clients().unwrap();
    let list: Vec<std::net::IpAddr> = clients.iter().map(|x| x.0).collect();
    let mut sorted = list.clone();
    sorted.sort();
    sorted.dedup();
    if sorted != list {
        report("unsorted-or-duplicate", format!(
            "client list not sorted/unique: {list:?}"
        ));
    }
    let got: BTreeMap<std::net::IpAddr, usize> = clients.iter().map(|x| {
        (x.0, x.1.current_connections())
    }).collect();
    for (addr, want) in &expect {
        match got.get(addr) {
            None => report("address-lost", format!(
                "address {addr} missing from the client list"
            )),
            Some(n) if n != want => report("count-lost", format!(
                "address {addr}: {n} open connections recorded, {want} expected"
            )),
            _ => { }
        }
    }
    let total: usize = expect.values().sum();
    if metrics.global().current_connections() != total {
        report("global-count", format!(
            "global open connections {} != {total}",
            metrics.global().current_connections()
        ));
    }
    for client in &held {
        client.update(|m| m.dec_current_connections());
    }
    if metrics.global().current_connections() != 0
        || metrics.clients().unwrap().iter().any(|x| {
            x.1.current_connections() != 0
        })
    {
        report("not-zero", "open connection counts not zero after close".into());
    }
}

/// C37: the collector's once-per-run bookkeeping.
fn scenario_c37(scratch: PathBuf, found: Found, seed: u64) {
    use routinator::collector::Collector;
    use routinator::engine::CaCert;
    use rpki::repository::cert::Cert;
    use rpki::repository::tal::{TalInfo, TalUri};
    use crate::pki::{self, CaCertSpec, KeyRef, Res};

    sim::clock::set(1_760_000_000);
    let mut rng = Rng::new(seed);
    let _ = std::fs::remove_dir_all(&scratch);
    std::fs::create_dir_all(scratch.join("cache")).unwrap();
    let use_rrdp = rng.chance(50, 100);
    // Two CAs in the same module / repository, one elsewhere.
    let mut certs = Vec::new();
    let mut rsync = crate::servers::RsyncSrv::new(scratch.join("rsyncsrv"));
    let http = crate::servers::HttpSrv::default();
    let mut rrdp = crate::servers::RrdpSrv::new(
        "r0.sim.example", crate::servers::uuid_from(seed, 1)
    );
    let mut objects = BTreeMap::new();
    for (i, (module, dir)) in [("m0", "a"), ("m0", "b"), ("m1", "c")]
        .iter().enumerate()
    {
        // Host names compare case-insensitively: the same module may be
        // spelled differently by different CAs.
        let host = *rng.pick(&[
            "h0.sim.example", "h0.sim.example", "H0.sim.example",
            "h0.SIM.Example",
        ]);
        let repo = format!("rsync://{host}/{module}/{dir}/");
        let spec = CaCertSpec {
            serial: 10 + i as u64,
            subject_key: i,
            issuer: KeyRef::good(i),
            is_ta: true,
            not_before: 1_750_000_000,
            not_after: 1_790_000_000,
            res: Res::all(),
            inherit: false,
            overclaim_trim: false,
            ca_repository: repo.clone(),
            rpki_manifest: format!("{repo}x.mft"),
            rpki_notify: (use_rrdp && i < 2).then(|| rrdp.notify_uri()),
            ca_issuer: String::new(),
            crl_uri: String::new(),
            same_name: false,
        };
        let bytes = pki::make_ca_cert(&spec);
        let cert = Cert::decode(bytes).unwrap().validate_ta(
            TalInfo::from_name("sim".into()).into_arc(), false
        ).expect("validate_ta");
        let ca = CaCert::root(
            cert, TalUri::Rsync(pki::rsync_uri(&format!("{repo}ta.cer"))), 0
        ).unwrap();
        certs.push(ca);
        let content = bytes::Bytes::from(format!("manifest of {dir}"));
        objects.insert(format!("{repo}x.mft"), content);
    }
    for module in ["m0", "m1"] {
        let files: BTreeMap<String, ([u8; 32], bytes::Bytes)> = objects.iter()
            .filter(|(uri, _)| uri.contains(&format!("/{module}/")))
            .map(|(uri, data)| {
                let path = uri.split(&format!("/{module}/")).nth(1).unwrap();
                (path.to_string(), ([0u8; 32], data.clone()))
            }).collect();
        rsync.set_module(&format!("h0.sim.example/{module}"), &files);
    }
    rrdp.publish(objects.iter().filter(|(uri, _)| uri.contains("/m0/"))
        .map(|(k, v)| (k.clone(), v.clone())).collect());
    http.set_routes(rrdp.routes());
    routinator::verif::install(Arc::new(DHandler { http: Some(http.clone()) }));

    let mut config = Config::default_with_paths(
        Default::default(), scratch.join("cache")
    );
    config.no_rir_tals = true;
    config.rsync_command = std::env::current_exe().unwrap()
        .to_string_lossy().into_owned();
    config.rsync_args = Some(vec![
        format!("--sim-root={}", rsync.root.display())
    ]);
    config.rsync_timeout = None;
    let collector = Arc::new(Collector::new(&config).expect("collector"));
    let certs = Arc::new(certs);
    let n_threads = 2 + rng.usize(2);
    let report = {
        let found = found.clone();
        move |class: &str, msg: String| {
            found.lock().unwrap().push((class.into(), msg));
        }
    };
    // The run borrows the collector; keep everything in one scope.
    let run = collector.start();
    let run = Arc::new(run);
    // Safety of lifetimes: threads are joined before `run` is dropped.
    let run_ref: &'static routinator::collector::Run<'static> = unsafe {
        std::mem::transmute(&*run)
    };
    let mut handles = Vec::new();
    for t in 0..n_threads {
        let certs = certs.clone();
        let found = found.clone();
        let order: Vec<usize> = {
            let mut order = vec![0, 1, 2];
            let mut rng = Rng::new(mix(&[seed, 50, t as u64]));
            rng.shuffle(&mut order);
            order.truncate(2);
            order
        };
        handles.push(shuttle::thread::spawn(move || {
            for idx in order {
                let ca = &certs[idx];
                trace(&format!("repository {}", ca.ca_repository()));
                match run_ref.repository(ca) {
                    Ok(Some(repo)) => {
                        // The fetch must have finished: the manifest is
                        // readable.
                        match repo.load_object(ca.rpki_manifest()) {
                            Ok(Some(_)) => { }
                            other => {
                                found.lock().unwrap().push((
                                    "read-before-fetch".into(),
                                    format!(
                                        "thread {t}: object of {} not \
                                         available after repository() \
                                         returned: {:?}",
                                        ca.ca_repository(), other.is_ok()
                                    )
                                ));
                            }
                        }
                    }
                    Ok(None) => {
                        found.lock().unwrap().push((
                            "no-repository".into(),
                            format!("thread {t}: no repository for {}",
                                ca.ca_repository())
                        ));
                    }
                    Err(_) => {
                        found.lock().unwrap().push((
                            "run-failed".into(), "repository() failed".into()
                        ));
                    }
                }
            }
        }));
    }
    for handle in handles {
        handle.join().unwrap();
    }
    drop(run);
    let mut counts: BTreeMap<String, usize> = BTreeMap::new();
    for module in rsync.take_log() {
        *counts.entry(format!("rsync {module}")).or_default() += 1;
    }
    for entry in http.take_log() {
        if entry.uri.ends_with("notification.xml") {
            *counts.entry(format!("rrdp {}", entry.uri)).or_default() += 1;
        }
    }
    for (what, n) in counts {
        if n > 1 {
            report("double-fetch", format!("{what} fetched {n} times in one run"));
        }
    }
    routinator::verif::uninstall();
}

pub fn supported(property: &str) -> bool {
    matches!(property, "C15" | "C16" | "C17" | "C36" | "C37")
}

pub fn run(
    property: &str, seed: u64, _mask: &BTreeSet<(usize, usize)>,
    scratch: &Path,
) -> RunResult {
    let found: Found = Arc::new(StdMutex::new(Vec::new()));
    TRACE.lock().unwrap().clear();
    let pct = seed % 3 == 0;
    let mut config = shuttle::Config::new();
    config.stack_size = 4 << 20;
    config.failure_persistence = shuttle::FailurePersistence::None;
    config.max_steps = shuttle::MaxSteps::FailAfter(200_000);
    let scenario: fn(PathBuf, Found, u64) = match property {
        "C15" => scenario_c15,
        "C16" => scenario_c16,
        "C17" => scenario_c17,
        "C36" => scenario_c36,
        "C37" => scenario_c37,
        _ => panic!("engine D does not serve {property}")
    };
    if property != "C37" {
        routinator::verif::install(Arc::new(DHandler { http: None }));
    }
    let scratch_buf = scratch.to_path_buf();
    let found2 = found.clone();
    let result = std::panic::catch_unwind(move || {
        let body = move || scenario(scratch_buf.clone(), found2.clone(), seed);
        if pct {
            shuttle::Runner::new(
                PctScheduler::new_from_seed(seed, 3, 1), config
            ).run(body);
        }
        else {
            shuttle::Runner::new(
                RandomScheduler::new_from_seed(seed, 1), config
            ).run(body);
        }
    });
    routinator::verif::uninstall();
    let _ = std::fs::remove_dir_all(scratch);
    let prop: &'static str = match property {
        "C15" => "C15", "C16" => "C16", "C17" => "C17", "C36" => "C36",
        _ => "C37"
    };
    let mut violations = Vec::new();
    let mut log = Vec::new();
    let mut stats = Stats::default();
    stats.steps = 1;
    stats.fault(if pct { "pct-schedule" } else { "random-schedule" });
    for (class, msg) in found.lock().unwrap().iter() {
        log.push(format!("VIOLATION {prop} {class}: {msg}"));
        violations.push(Violation {
            property: prop, class: class.clone(), message: msg.clone(), step: 0
        });
    }
    if let Err(panic) = result {
        let msg = panic.downcast_ref::<String>().cloned().or_else(|| {
            panic.downcast_ref::<&str>().map(|s| s.to_string())
        }).unwrap_or_else(|| "panic".into());
        let lower = msg.to_ascii_lowercase();
        if lower.contains("deadlock") {
            let class = if property == "C17" { "lost-wakeup" } else { "deadlock" };
            log.push(format!("VIOLATION {prop} {class}: {msg}"));
            violations.push(Violation {
                property: prop, class: class.into(),
                message: format!(
                    "all tasks blocked: {}", msg.lines().next().unwrap_or("")
                ),
                step: 0
            });
        }
        else {
            violations.push(Violation {
                property: "harness", class: "panic".into(),
                message: msg.chars().take(600).collect(), step: 0
            });
        }
    }
    let trace_log = std::mem::take(&mut *TRACE.lock().unwrap());
    stats.signature = format!("{property}:{trace_log:?}");
    log.push(format!("trace: {trace_log:?}"));
    RunResult {
        seed, violations, stats, log,
        ops: vec![json!({
            "step": 0, "op": "schedule",
            "scheduler": if pct { "pct(depth 3)" } else { "random" },
            "scheduler_seed": seed,
        })],
    }
}

//! Engine E: the object archive as a map, with reopening.

use std::collections::{BTreeMap, BTreeSet};
use std::path::Path;
use routinator::utils::archive::{
    AccessError, Archive, ArchiveError, FetchError, ObjectMeta, PublishError,
    StorageRead, StorageWrite,
};
use serde_json::json;
use crate::common::{RunResult, Stats, Violation};
use crate::sim::{self, mix, Rng};

#[derive(Clone, Copy, Debug, PartialEq, Eq)]
pub struct Tag(pub u32);

impl ObjectMeta for Tag {
    const SIZE: usize = 4;
    type ConsistencyError = String;

    fn write(&self, write: &mut StorageWrite) -> Result<(), ArchiveError> {
        write.write(&self.0.to_be_bytes())
    }

    fn read(read: &mut StorageRead) -> Result<Self, ArchiveError> {
        Ok(Tag(u32::from_be_bytes(read.read_array()?)))
    }
}

fn pick_size(rng: &mut Rng) -> usize {
    match rng.below(10) {
        0 => 0,
        1 => 1,
        2 => rng.range(180, 260) as usize,
        3 => rng.range(440, 520) as usize,
        4 => rng.range(700, 780) as usize,
        5 => rng.range(2000, 5000) as usize,
        6 => rng.range(60_000, 70_000) as usize,
        _ => rng.range(2, 150) as usize,
    }
}

fn make_data(rng: &mut Rng, tag: u32) -> Vec<u8> {
    let len = pick_size(rng);
    let mut data = vec![0u8; len];
    rng.fill(&mut data);
    // Make every written value unique.
    for (i, b) in tag.to_be_bytes().iter().enumerate() {
        if i < data.len() { data[i] = *b }
    }
    data
}

pub fn run(
    seed: u64, thorough: bool, mask: &BTreeSet<(usize, usize)>, scratch: &Path,
) -> RunResult {
    let _ = std::fs::remove_dir_all(scratch);
    std::fs::create_dir_all(scratch).unwrap();
    sim::clock::set(1_750_000_000);
    sim::entropy::set(mix(&[seed, 31]));
    let mut rng = Rng::new(mix(&[seed, 32]));
    let path = scratch.join("archive.bin");
    let mut stats = Stats::default();
    let mut log = Vec::new();
    let mut ops = Vec::new();
    let mut violations: Vec<Violation> = Vec::new();
    macro_rules! violation {
        ($step:expr, $class:expr, $($arg:tt)*) => {{
            let msg = format!($($arg)*);
            log.push(format!("VIOLATION C26 {}: {}", $class, msg));
            violations.push(Violation {
                property: "C26", class: $class.into(), message: msg,
                step: $step
            });
        }}
    }

    let n_names = *rng.pick(&[3usize, 3, 6, 6, 24, 24, 24, 1500]);
    let names: Vec<Vec<u8>> = (0..n_names).map(|i| {
        match i % 3 {
            0 => format!("rsync://h{}.example/m/{}.roa", i % 7, i).into_bytes(),
            1 => format!("n{i}").into_bytes(),
            _ => {
                let mut name = format!("long-{i}-").into_bytes();
                name.extend(std::iter::repeat(b'x').take(i % 300));
                name
            }
        }
    }).collect();
    let n_ops = if thorough { rng.range(20, 120) } else { rng.range(5, 60) }
        as usize;
    let mut model: BTreeMap<Vec<u8>, (Tag, Vec<u8>)> = BTreeMap::new();
    let mut archive = match Archive::<Tag>::create(&path) {
        Ok(archive) => archive,
        Err(err) => {
            violation!(0, "create", "cannot create archive: {err}");
            return RunResult { seed, violations, stats, log, ops }
        }
    };
    let mut writable = true;
    let mut tag = 0u32;

    // Pre-fill so that large universes see hash collisions.
    if n_names > 1000 {
        for name in &names {
            tag += 1;
            let data = vec![(tag % 251) as u8; (tag % 40) as usize];
            if archive.publish(name, &Tag(tag), &data).is_err() {
                violation!(0, "prefill", "publish failed during prefill");
            }
            model.insert(name.clone(), (Tag(tag), data));
        }
    }

    for step in 0..n_ops {
        let mut orng = Rng::new(mix(&[seed, 33, step as u64]));
        if mask.contains(&(step, 0)) {
            continue
        }
        let name = orng.pick(&names).clone();
        let name_str = String::from_utf8_lossy(&name[..name.len().min(40)])
            .into_owned();
        let kind = orng.below(100);
        if !writable && kind < 70 {
            // Reopen writable first.
            drop(archive);
            archive = match Archive::<Tag>::open(&path, true) {
                Ok(archive) => archive,
                Err(err) => {
                    violation!(step, "reopen", "reopen writable failed: {err}");
                    break
                }
            };
            writable = true;
        }
        match kind {
            0..=29 => {
                tag += 1;
                let data = make_data(&mut orng, tag);
                ops.push(json!({"step": step, "k": 0, "op": "publish",
                    "name": name_str, "len": data.len()}));
                stats.fault("publish");
                let res = archive.publish(&name, &Tag(tag), &data);
                match (res, model.contains_key(&name)) {
                    (Ok(()), false) => { model.insert(name, (Tag(tag), data)); }
                    (Err(PublishError::AlreadyExists), true) => {
                        stats.probe("publish-duplicate");
                    }
                    (res, exists) => violation!(step, "publish",
                        "publish of {name_str} (exists in model: {exists}) \
                         returned {res:?}"),
                }
            }
            30..=49 => {
                tag += 1;
                let data = make_data(&mut orng, tag);
                let wrong_meta = orng.chance(20, 100);
                ops.push(json!({"step": step, "k": 0, "op": "update",
                    "name": name_str, "len": data.len(), "wrong_meta": wrong_meta}));
                stats.fault("update");
                let expect_tag = match model.get(&name) {
                    Some((t, _)) => if wrong_meta { Tag(t.0 ^ 1) } else { *t },
                    None => Tag(0),
                };
                let res = archive.update(&name, &Tag(tag), &data, |meta| {
                    if *meta == expect_tag { Ok(()) }
                    else { Err(format!("tag {} != {}", meta.0, expect_tag.0)) }
                });
                match (res, model.contains_key(&name), wrong_meta) {
                    (Ok(()), true, false) => {
                        model.insert(name, (Tag(tag), data));
                    }
                    (Err(AccessError::Inconsistent(_)), true, true) => {
                        stats.probe("update-refused-by-meta");
                    }
                    (Err(AccessError::NotFound), false, _) => {
                        stats.probe("update-missing");
                    }
                    (res, exists, wrong) => violation!(step, "update",
                        "update of {name_str} (exists: {exists}, wrong meta: \
                         {wrong}) returned {res:?}"),
                }
            }
            50..=64 => {
                let wrong_meta = orng.chance(20, 100);
                ops.push(json!({"step": step, "k": 0, "op": "delete",
                    "name": name_str, "wrong_meta": wrong_meta}));
                stats.fault("delete");
                let expect_tag = match model.get(&name) {
                    Some((t, _)) => if wrong_meta { Tag(t.0 ^ 1) } else { *t },
                    None => Tag(0),
                };
                let res = archive.delete(&name, |meta| {
                    if *meta == expect_tag { Ok(()) }
                    else { Err("tag".to_string()) }
                });
                match (res, model.contains_key(&name), wrong_meta) {
                    (Ok(()), true, false) => { model.remove(&name); }
                    (Err(AccessError::Inconsistent(_)), true, true) => {
                        stats.probe("delete-refused-by-meta");
                    }
                    (Err(AccessError::NotFound), false, _) => {
                        stats.probe("delete-missing");
                    }
                    (res, exists, wrong) => violation!(step, "delete",
                        "delete of {name_str} (exists: {exists}, wrong meta: \
                         {wrong}) returned {res:?}"),
                }
            }
            65..=84 => {
                ops.push(json!({"step": step, "k": 0, "op": "fetch",
                    "name": name_str}));
                stats.fault("fetch");
                let res = archive.fetch(&name);
                match (res, model.get(&name)) {
                    (Ok(data), Some((_, want))) => {
                        if data.as_ref() != want.as_slice() {
                            violation!(step, "fetch-data",
                                "fetch of {name_str} returned wrong data \
                                 ({} bytes, expected {})", data.len(), want.len());
                        }
                    }
                    (Err(FetchError::NotFound), None) => { }
                    (res, want) => violation!(step, "fetch",
                        "fetch of {name_str} (exists: {}) returned {:?}",
                        want.is_some(), res.map(|d| d.len())),
                }
                let want_tag = model.get(&name).map(|x| x.0);
                let res = archive.fetch_if(&name, |meta| {
                    if Some(*meta) == want_tag { Ok(()) }
                    else { Err(format!("tag {}", meta.0)) }
                });
                match (res, model.get(&name)) {
                    (Ok(data), Some((_, want))) if data.as_ref() == want.as_slice() => { }
                    (Err(AccessError::NotFound), None) => { }
                    (res, want) => violation!(step, "fetch-if",
                        "fetch_if of {name_str} (exists: {}) returned {:?}",
                        want.is_some(), res.map(|d| d.len())),
                }
            }
            _ => {
                let ro = orng.chance(40, 100);
                ops.push(json!({"step": step, "k": 0, "op": "reopen",
                    "read_only": ro}));
                stats.fault(if ro { "reopen-ro" } else { "reopen-rw" });
                drop(archive);
                archive = match Archive::<Tag>::open(&path, !ro) {
                    Ok(archive) => archive,
                    Err(err) => {
                        violation!(step, "reopen", "reopen failed: {err}");
                        break
                    }
                };
                writable = !ro;
            }
        }
        // Consistency after every step.
        if let Err(err) = archive.verify() {
            violation!(step, "verify", "verify() failed after step: {err}");
            break
        }
        // Full comparison every few steps (and always for small universes).
        if n_names <= 24 || step % 8 == 0 || step + 1 == n_ops {
            match archive.objects() {
                Ok(iter) => {
                    let mut seen = BTreeMap::new();
                    let mut failed = false;
                    for item in iter {
                        match item {
                            Ok((name, meta, data)) => {
                                if seen.insert(
                                    name.to_vec(), (meta, data.to_vec())
                                ).is_some() {
                                    violation!(step, "objects-duplicate",
                                        "objects() lists a name twice");
                                }
                            }
                            Err(err) => {
                                violation!(step, "objects",
                                    "objects() failed: {err}");
                                failed = true;
                                break
                            }
                        }
                    }
                    let seen: BTreeMap<Vec<u8>, (Tag, Vec<u8>)> = seen;
                    if !failed && seen != model {
                        let extra = seen.keys().filter(|k| {
                            !model.contains_key(*k)
                        }).count();
                        violation!(step, "objects-differ",
                            "archive content differs from the map model \
                             ({} objects vs {} expected, {} unexpected names)",
                            seen.len(), model.len(), extra);
                    }
                }
                Err(err) => violation!(step, "objects", "objects() failed: {err}"),
            }
        }
        if !violations.is_empty() {
            break
        }
    }
    stats.steps = n_ops as u64;
    stats.signature = format!(
        "n{}:{:?}:{:?}:{}", n_names, stats.faults, stats.probes, model.len()
    );
    let _ = std::fs::remove_dir_all(scratch);
    RunResult { seed, violations, stats, log, ops }
}

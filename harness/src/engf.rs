//! Engine F: the real commands as subprocesses with scripted run outcomes.
//!
//! The `routinator` entry point is this binary in `routinator` mode, which
//! performs exactly what `src/main.rs` does (`Operation::prepare`, argument
//! parsing, `Operation::run`). The outcome of each validation run is forced
//! through the environment (hook H5); every started run is logged.

use std::collections::BTreeSet;
use std::path::Path;
use std::process::Command;
use serde_json::json;
use crate::common::{RunResult, Stats, Violation};

/// What `main.rs` does, with the arguments given.
pub fn routinator_main(args: &[String]) -> i32 {
    use routinator::{Config, ExitError, Operation};
    let run = || -> Result<(), ExitError> {
        Operation::prepare()?;
        let cur_dir = std::env::current_dir().map_err(|_| ExitError::Generic)?;
        let matches = Operation::config_args(Config::config_args(
            clap::Command::new("Routinator")
        )).get_matches_from(
            std::iter::once("routinator".to_string()).chain(args.iter().cloned())
        );
        let mut config = Config::from_arg_matches(&matches, &cur_dir)?;
        let operation = Operation::from_arg_matches(
            &matches, &cur_dir, &mut config
        )?;
        operation.run(config)
    };
    match run() {
        Ok(()) => 0,
        Err(ExitError::Generic) => 1,
        Err(ExitError::IncompleteUpdate) => 2,
        Err(ExitError::Invalid) => 3,
    }
}

#[derive(Clone, Copy, Debug, PartialEq, Eq)]
pub enum Outcome { Ok, Retry, Fatal }

impl Outcome {
    fn name(self) -> &'static str {
        match self {
            Outcome::Ok => "ok", Outcome::Retry => "retry",
            Outcome::Fatal => "fatal"
        }
    }
}

pub const COMMANDS: &[&str] = &["vrps", "validate", "update", "server"];

/// All outcome sequences of length 1..=max.
pub fn sequences(max: usize) -> Vec<Vec<Outcome>> {
    let mut res = Vec::new();
    let mut cur: Vec<Vec<Outcome>> = vec![Vec::new()];
    for _ in 0..max {
        let mut next = Vec::new();
        for seq in &cur {
            for o in [Outcome::Ok, Outcome::Retry, Outcome::Fatal] {
                let mut seq = seq.clone();
                seq.push(o);
                next.push(seq);
            }
        }
        res.extend(next.iter().cloned());
        cur = next;
    }
    res
}

/// The cases: command, scripted run outcomes, and whether the sanitize
/// step that precedes a retry fails (hook H14).
pub fn cases(thorough: bool) -> Vec<(&'static str, Vec<Outcome>, bool)> {
    let mut res = Vec::new();
    for cmd in COMMANDS {
        let max = match (*cmd, thorough) {
            ("server", true) => 5,
            _ => 4,
        };
        for seq in sequences(max) {
            res.push((*cmd, seq, false));
        }
    }
    // The same with a failing sanitize step, where a retry is involved.
    for cmd in ["vrps", "server"] {
        for seq in sequences(if thorough { 4 } else { 3 }) {
            if seq.contains(&Outcome::Retry) {
                res.push((cmd, seq, true));
            }
        }
    }
    res
}

/// What the property allows: (max runs, must exit non-zero, may run forever).
///
/// Outcomes beyond the script are successes.
fn expectation(
    cmd: &str, seq: &[Outcome], sanitize_fails: bool
) -> (usize, Option<bool>) {
    let get = |i: usize| seq.get(i).copied().unwrap_or(Outcome::Ok);
    match cmd {
        "vrps" if sanitize_fails => {
            // If the cache cannot be sanitized the command may give up
            // right away or still retry once: never more than two runs,
            // and success only if a run succeeded.
            match get(0) {
                Outcome::Ok => (1, Some(true)),
                Outcome::Fatal => (1, Some(false)),
                Outcome::Retry => match get(1) {
                    Outcome::Ok => (2, None),
                    _ => (2, Some(false)),
                }
            }
        }
        "vrps" => {
            // One retry at most.
            match get(0) {
                Outcome::Ok => (1, Some(true)),
                Outcome::Fatal => (1, Some(false)),
                Outcome::Retry => match get(1) {
                    Outcome::Ok => (2, Some(true)),
                    _ => (2, Some(false)),
                }
            }
        }
        "validate" | "update" => {
            // At most one retry is allowed; the implementation may also
            // not retry at all.
            match get(0) {
                Outcome::Ok => (1, Some(true)),
                Outcome::Fatal => (1, Some(false)),
                Outcome::Retry => match get(1) {
                    // May or may not retry: exit status unconstrained if it
                    // does not retry (it failed) -- must be failure unless
                    // it retried successfully.
                    Outcome::Ok => (2, None),
                    _ => (2, Some(false)),
                }
            }
        }
        _ => (usize::MAX, None)
    }
}

/// The server's allowed behaviour as a state machine over the script:
/// returns (runs until it must have shut down or None if it keeps running,
/// the maximum number of retries after the initial run).
fn server_expectation(seq: &[Outcome], _sanitize_fails: bool) -> Option<usize> {
    // Returns the number of runs after which the server must have exited,
    // or None if it legitimately keeps running.
    let get = |i: usize| seq.get(i).copied().unwrap_or(Outcome::Ok);
    let mut i = 0;
    // Initial run(s): a retryable failure of the initial run leads to the
    // full run; this is not counted as the one retry.
    match get(i) {
        Outcome::Fatal => return Some(1),
        _ => { i += 1 }
    }
    let mut retried = false;
    loop {
        if i >= seq.len() + 2 {
            return None
        }
        match get(i) {
            Outcome::Ok => { i += 1 }
            Outcome::Fatal => return Some(i + 1),
            Outcome::Retry => {
                if retried {
                    return Some(i + 1)
                }
                retried = true;
                i += 1;
            }
        }
    }
}

pub fn run_case(
    index: usize, thorough: bool, scratch: &Path
) -> RunResult {
    let all = cases(thorough);
    let (cmd, seq, sanitize_fails) = all[index % all.len()].clone();
    let _ = std::fs::remove_dir_all(scratch);
    std::fs::create_dir_all(scratch.join("cache")).unwrap();
    let exe = std::env::current_exe().unwrap();
    let run_log = scratch.join("runs.log");
    let config_path = scratch.join("routinator.conf");
    std::fs::write(&config_path, format!(
        "repository-dir = \"{}\"\nno-rir-tals = true\nrsync-command = \"{}\"\n\
         rsync-args = [\"--sim-root={}\"]\nrefresh = 1\nlog-level = \"error\"\n\
         log = \"stderr\"\n",
        scratch.join("cache").display(), exe.display(),
        scratch.join("rsyncsrv").display()
    )).unwrap();
    let script: Vec<&str> = seq.iter().map(|o| o.name()).collect();
    let max_runs = seq.len() + 3;
    let mut args: Vec<String> = vec![
        "routinator".into(), "--config".into(),
        config_path.to_string_lossy().into_owned(),
    ];
    match cmd {
        "vrps" => args.extend(["vrps".into(), "-o".into(),
            scratch.join("out.csv").to_string_lossy().into_owned()]),
        "validate" => args.extend(["validate".into(), "--asn".into(),
            "64496".into(), "--prefix".into(), "192.0.2.0/24".into()]),
        "update" => args.push("update".into()),
        _ => args.push("server".into()),
    }
    let start = std::time::Instant::now();
    let mut child = Command::new(&exe)
        .args(&args)
        .env("ROUTINATOR_VERIF_RUNS", script.join(","))
        .env("ROUTINATOR_VERIF_RUN_LOG", &run_log)
        .env("ROUTINATOR_VERIF_MAX_RUNS", max_runs.to_string())
        .env("ROUTINATOR_VERIF_BUGGIFY",
            if sanitize_fails { "engine.sanitize" } else { "" })
        .stdout(std::process::Stdio::null())
        .stderr(std::process::Stdio::null())
        .spawn().expect("spawn routinator");
    // Watchdog.
    let limit = std::time::Duration::from_secs(40);
    let status = loop {
        match child.try_wait().expect("wait") {
            Some(status) => break Some(status),
            None => {
                if start.elapsed() > limit {
                    let _ = child.kill();
                    let _ = child.wait();
                    break None
                }
                std::thread::sleep(std::time::Duration::from_millis(5));
            }
        }
    };
    let runs = std::fs::read_to_string(&run_log).map(|s| s.lines().count())
        .unwrap_or(0);
    let code = status.and_then(|s| s.code());
    let mut violations = Vec::new();
    let mut log = Vec::new();
    let desc = format!(
        "{cmd} with run outcomes [{}]{}", script.join(","),
        if sanitize_fails { " and a failing sanitize step" } else { "" }
    );
    let mut violation = |class: &str, msg: String| {
        log.push(format!("VIOLATION C32 {class}: {msg}"));
        violations.push(Violation {
            property: "C32", class: class.into(), message: msg, step: 0
        });
    };
    if cmd == "server" {
        match server_expectation(&seq, sanitize_fails) {
            Some(must_exit_by) => {
                // Must have shut down with an error after at most that
                // many runs.
                if code == Some(97) || status.is_none() {
                    violation("server-keeps-running", format!(
                        "{desc}: server still running after {runs} runs, \
                         had to shut down after run {must_exit_by}"
                    ));
                }
                else if runs > must_exit_by {
                    violation("server-extra-runs", format!(
                        "{desc}: {runs} runs, expected shutdown after \
                         {must_exit_by}"
                    ));
                }
                else if code == Some(0) {
                    violation("server-exit-ok", format!(
                        "{desc}: server shut down with status 0"
                    ));
                }
            }
            None => {
                // Keeps running until the harness limit (exit 97). If the
                // sanitize step fails, giving up at the first retryable
                // failure after the initial run is fine as well.
                let may_stop = sanitize_fails
                    && seq.iter().skip(1).any(|o| *o == Outcome::Retry)
                    && code != Some(0);
                if code != Some(97) && !may_stop {
                    violation("server-stopped", format!(
                        "{desc}: server exited with {code:?} after {runs} \
                         runs although every failure was within the retry \
                         allowance"
                    ));
                }
            }
        }
    }
    else {
        let (max, exit_ok) = expectation(cmd, &seq, sanitize_fails);
        if code == Some(97) || status.is_none() {
            violation("loops", format!(
                "{desc}: command still retrying after {runs} validation \
                 runs (limit of the harness: {max_runs})"
            ));
        }
        else if runs > max {
            violation("too-many-runs", format!(
                "{desc}: {runs} validation runs, at most {max} allowed"
            ));
        }
        else if let Some(ok) = exit_ok {
            if ok != (code == Some(0)) {
                violation("exit-status", format!(
                    "{desc}: exit status {code:?} after {runs} runs"
                ));
            }
        }
        else if runs == 1 && code == Some(0) {
            violation("exit-status", format!(
                "{desc}: exit status 0 although the only run failed"
            ));
        }
    }
    let _ = std::fs::remove_dir_all(scratch);
    let mut stats = Stats::default();
    stats.steps = runs as u64;
    for o in &seq {
        stats.fault(o.name());
    }
    if sanitize_fails { stats.fault("sanitize-fails"); }
    stats.signature = desc.clone();
    log.push(format!("{desc}: {runs} runs, exit {code:?}"));
    RunResult {
        seed: index as u64,
        violations, stats, log,
        ops: vec![json!({"step": 0, "op": cmd, "outcomes": script,
            "runs": runs, "exit": code})],
    }
}

pub fn n_cases(thorough: bool) -> u64 {
    cases(thorough).len() as u64
}

#[allow(dead_code)]
pub fn unused(_: &BTreeSet<(usize, usize)>) { }

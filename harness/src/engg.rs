//! Engine G: the RTR listener on loopback sockets.
//!
//! `rtr_listener` is hard-wired to tokio TCP, so this engine uses real
//! loopback sockets in a current-thread runtime. Which connections fail
//! their setup (hook H9) is decided by the seed; the outcome (which
//! connections must be served) is deterministic, timing is not: the liveness
//! bound is generous wall clock and only ever elapses on a violation.

use std::collections::BTreeSet;
use std::path::Path;
use std::sync::{Arc, Mutex};
use std::time::Duration;
use routinator::config::Config;
use routinator::engine::Engine;
use routinator::metrics::RtrServerMetrics;
use routinator::operation::Server;
use routinator::payload::SharedHistory;
use routinator::slurm::LocalExceptions;
use rpki::rtr::server::NotifySender;
use serde_json::json;
use tokio::io::{AsyncReadExt, AsyncWriteExt};
use crate::common::{RunResult, Stats, Violation};
use crate::sim::{mix, Rng};

struct GHandler {
    /// The plan: whether the n-th connection setup fails.
    plan: Mutex<Vec<bool>>,
    calls: Mutex<usize>,
}

impl routinator::verif::Handler for GHandler {
    fn buggify(&self, site: &'static str) -> bool {
        if site != "rtr.keepalive" {
            return false
        }
        let mut calls = self.calls.lock().unwrap();
        let idx = *calls;
        *calls += 1;
        self.plan.lock().unwrap().get(idx).copied().unwrap_or(false)
    }
}

pub fn run(
    seed: u64, thorough: bool, mask: &BTreeSet<(usize, usize)>, scratch: &Path,
) -> RunResult {
    let _ = std::fs::remove_dir_all(scratch);
    std::fs::create_dir_all(scratch.join("cache")).unwrap();
    // Real time is needed here (socket timeouts): no simulated clock.
    crate::sim::clock::off();
    crate::sim::entropy::off();
    let mut rng = Rng::new(mix(&[seed, 71]));
    let n_conns = if thorough { rng.range(3, 10) } else { rng.range(3, 6) }
        as usize;
    // Swarm: how often setup fails and whether the connections arrive as
    // a burst that is queued in the backlog before the listener runs.
    let fail_pct = *rng.pick(&[35u64, 35, 80, 100]);
    let burst = rng.chance(50, 100);
    let n_conns = if burst && thorough { n_conns + rng.usize(8) } else { n_conns };
    // When every setup fails, a long row of failures is the point: any
    // penalty the listener accumulates per failure gets to show.
    let n_conns = if fail_pct == 100 { n_conns + 8 } else { n_conns };
    let mut plan: Vec<bool> = (0..n_conns).map(|i| {
        !mask.contains(&(0, i)) && rng.chance(fail_pct, 100)
    }).collect();
    // The last connection always has a working setup: it is the probe.
    plan.push(false);
    let per_client_metrics = rng.chance(50, 100);
    let keepalive = if rng.chance(85, 100) { Some(Duration::from_secs(60)) }
        else { None };

    let handler = Arc::new(GHandler {
        plan: Mutex::new(plan.clone()), calls: Mutex::new(0),
    });
    routinator::verif::install(handler.clone());

    let mut config = Config::default_with_paths(
        Default::default(), scratch.join("cache")
    );
    config.no_rir_tals = true;
    config.rtr_tcp_keepalive = keepalive;
    config.rtr_client_metrics = per_client_metrics;
    let engine = Engine::new(&config, false).expect("engine");
    let history = SharedHistory::from_config(&config);
    let mut notify = NotifySender::new();
    let exceptions = LocalExceptions::empty();
    Server::verif_process_once(
        &config, &engine, &history, &mut notify, &exceptions, false
    ).expect("process_once");

    let mut violations = Vec::new();
    let mut log = Vec::new();
    let mut stats = Stats::default();
    let metrics = Arc::new(RtrServerMetrics::new(per_client_metrics));

    let listener = std::net::TcpListener::bind("127.0.0.1:0").expect("bind");
    listener.set_nonblocking(true).unwrap();
    let port = listener.local_addr().unwrap().port();

    let leak: Arc<Mutex<(usize, Vec<(std::net::IpAddr, usize)>)>> =
        Arc::new(Mutex::new((0, Vec::new())));
    let runtime = tokio::runtime::Builder::new_current_thread()
        .enable_all().build().unwrap();
    let outcome: Vec<(usize, bool, String)> = runtime.block_on(async {
        let server = routinator::rtr::rtr_listener(
            history.clone(), metrics.clone(), &config, notify.clone(),
            Some(listener)
        ).expect("rtr_listener");
        let server = tokio::spawn(server);
        let mut res = Vec::new();
        // In burst mode all but the last connection are established (by the
        // kernel) before the listener task gets to run.
        let mut queued: Vec<Option<std::net::TcpStream>> = Vec::new();
        for i in 0..plan.len() {
            if burst && i + 1 < plan.len() {
                let stream = std::net::TcpStream::connect(
                    ("127.0.0.1", port)
                ).ok();
                if let Some(stream) = stream.as_ref() {
                    let _ = stream.set_nonblocking(true);
                }
                queued.push(stream);
            }
            else {
                queued.push(None);
            }
        }
        for (i, fails) in plan.iter().enumerate() {
            // If keepalive is off, setup is never attempted and never fails.
            let fails = *fails && keepalive.is_some();
            // Each client from its own source address.
            let src = format!("127.0.0.{}:0", 2 + (i % 5));
            let queued = queued[i].take();
            let attempt = async {
                let mut stream = match queued {
                    Some(stream) => tokio::net::TcpStream::from_std(stream)?,
                    None => {
                        let socket = tokio::net::TcpSocket::new_v4()?;
                        socket.bind(src.parse().unwrap())?;
                        socket.connect(
                            format!("127.0.0.1:{port}").parse().unwrap()
                        ).await?
                    }
                };
                // Reset Query, protocol version 1.
                stream.write_all(&[1, 2, 0, 0, 0, 0, 0, 8]).await?;
                let mut header = [0u8; 8];
                stream.read_exact(&mut header).await?;
                Ok::<u8, std::io::Error>(header[1])
            };
            let got = tokio::time::timeout(Duration::from_secs(3), attempt).await;
            let (served, detail) = match got {
                Ok(Ok(3)) => (true, "cache response".to_string()),
                Ok(Ok(pdu)) => (false, format!("pdu type {pdu}")),
                Ok(Err(err)) => (false, format!("io error: {err}")),
                Err(_) => (false, "timeout".to_string()),
            };
            res.push((i, fails, served, detail));
        }
        // C36: all clients have closed; once the server has noticed, every
        // open-connection count must be back at zero.
        let mut open = (0usize, Vec::new());
        for _ in 0..100 {
            tokio::time::sleep(Duration::from_millis(20)).await;
            let global = metrics.global().current_connections();
            let per_addr: Vec<(std::net::IpAddr, usize)> = metrics.clients()
                .map(|list| list.iter().map(|(addr, data)| {
                    (*addr, data.current_connections())
                }).filter(|(_, n)| *n != 0).collect()).unwrap_or_default();
            open = (global, per_addr);
            if open.0 == 0 && open.1.is_empty() { break }
        }
        *leak.lock().unwrap() = open;
        server.abort();
        res.into_iter().map(|(i, fails, served, detail)| {
            (i, fails, format!("{served}:{detail}"))
        }).collect()
    });
    drop(runtime);
    routinator::verif::uninstall();
    let mut any_failed_before = false;
    for (i, fails, detail) in &outcome {
        let served = detail.starts_with("true");
        stats.fault(if *fails { "setup-fails" } else { "setup-ok" });
        log.push(format!(
            "connection {i}: setup {} -> {detail}",
            if *fails { "fails" } else { "ok" }
        ));
        if !*fails && !served {
            let class = if any_failed_before { "not-served-after-failed-setup" }
                else { "not-served" };
            violations.push(Violation {
                property: "C19", class: class.into(),
                message: format!(
                    "connection {i} (setup not failed{}) was not served: {}",
                    if any_failed_before {
                        ", after an earlier connection whose setup failed"
                    } else { "" },
                    detail
                ),
                step: 0,
            });
            log.push(format!("VIOLATION C19 {class}"));
            break
        }
        if *fails {
            any_failed_before = true;
            if served {
                // The injected failure did not take effect: harness issue.
                violations.push(Violation {
                    property: "harness", class: "inject".into(),
                    message: "failed setup was served".into(), step: 0
                });
            }
        }
    }
    // C36 (counts): after all connections closed, open counts return to 0.
    let open = leak.lock().unwrap().clone();
    if open.0 != 0 || !open.1.is_empty() {
        violations.push(Violation {
            property: "C36", class: "count-leak".into(),
            message: format!(
                "all {} connections are closed but the open-connection \
                 counts are: global {}, per address {:?} (setups failed: {})",
                outcome.len(), open.0, open.1,
                outcome.iter().filter(|o| o.1).count()
            ),
            step: 0,
        });
        log.push("VIOLATION C36 count-leak".into());
    }
    let _ = std::fs::remove_dir_all(scratch);
    stats.steps = outcome.len() as u64;
    stats.fault(if burst { "burst" } else { "sequential" });
    stats.signature = format!(
        "{:?}:{:?}:{}:{}", plan, keepalive.is_some(), per_client_metrics, burst
    );
    RunResult {
        seed, violations, stats, log,
        ops: plan.iter().enumerate().map(|(i, f)| json!({
            "step": 0, "k": i, "op": "connect", "setup_fails": f
        })).collect(),
    }
}

//! Seeded generation of worlds and of the operations applied to them.

use std::collections::BTreeSet;
use crate::pki::{P4, P6, Res};
use crate::sim::Rng;
use crate::world::{
    CaSpec, CertSpec, ExtraCert, ObjSpec, Payload, RrdpRepoSpec, SigFault,
    TalSpec, World,
};

pub const DAY: i64 = 86400;

/// Knobs for world generation.
#[derive(Clone, Debug)]
pub struct GenCfg {
    pub max_tals: usize,
    pub max_cas: usize,
    pub max_depth: usize,
    pub max_objs: usize,
    /// Probability (percent) that a TA claims all resources.
    pub ta_all_pct: u64,
    /// Probability (percent) that a CA is published via RRDP as well.
    pub rrdp_pct: u64,
    /// Use few hosts/modules/repos so that they are shared.
    pub shared_repos: bool,
    /// Build a single long chain instead of a bushy tree.
    pub chain: bool,
    /// Probability (percent) that a location uses a dubious host.
    pub dubious_pct: u64,
    /// Hand out wide child resources so that siblings often nest/overlap.
    pub wide_children: bool,
    /// Chance (percent) that all CA certificates of a world use one name.
    pub same_names_pct: u64,
}

impl Default for GenCfg {
    fn default() -> Self {
        GenCfg {
            max_tals: 2, max_cas: 8, max_depth: 3, max_objs: 4,
            ta_all_pct: 40, rrdp_pct: 50, shared_repos: true, chain: false,
            dubious_pct: 0,
            wide_children: false, same_names_pct: 0,
        }
    }
}

pub struct Gen<'a> {
    pub rng: &'a mut Rng,
    pub cfg: GenCfg,
    pub now: i64,
    next_ca_key: usize,
    next_ee_key: usize,
    next_obj: usize,
}

impl<'a> Gen<'a> {
    pub fn new(rng: &'a mut Rng, cfg: GenCfg, now: i64) -> Self {
        Gen { rng, cfg, now, next_ca_key: 0, next_ee_key: 0, next_obj: 0 }
    }

    fn ca_key(&mut self) -> usize {
        let res = self.next_ca_key % 24;
        self.next_ca_key += 1;
        res
    }

    /// Makes object names and EE keys depend on the operation's position.
    pub fn seed_names(&mut self, step: usize, k: usize) {
        self.next_obj = 1000 + step * 100 + k * 10;
        self.next_ee_key = step * 7 + k * 3;
    }

    pub fn seed_keys(&mut self, n_cas: usize) {
        self.next_ca_key = n_cas;
    }

    pub fn ee_key(&mut self) -> usize {
        let res = 24 + (self.next_ee_key % 24);
        self.next_ee_key += 1;
        res
    }

    pub fn obj_name(&mut self, ext: &str) -> String {
        self.next_obj += 1;
        format!("o{}.{}", self.next_obj, ext)
    }

    pub fn world(&mut self) -> World {
        let mut world = World::default();
        world.same_names = self.cfg.same_names_pct > 0
            && self.rng.chance(self.cfg.same_names_pct, 100);
        let n_repos = if self.cfg.shared_repos { 2 } else { 4 };
        for r in 0..n_repos {
            world.repos.push(RrdpRepoSpec {
                host: format!("r{r}.sim.example"),
            });
        }
        if self.cfg.dubious_pct > 0 {
            let mut hosts = vec![
                "localhost", "127.0.0.1", "r9.sim.example:8443", "LocalHost",
                "192.0.2.99",
            ];
            self.rng.shuffle(&mut hosts);
            for host in hosts.into_iter().take(2) {
                world.repos.push(RrdpRepoSpec { host: host.into() });
            }
        }
        let n_tals = 1 + self.rng.usize(self.cfg.max_tals);
        for t in 0..n_tals {
            self.ta(&mut world, t);
        }
        // Children, breadth first.
        let mut frontier: Vec<(usize, usize)> = world.tals.iter().map(
            |tal| (tal.ca, 0)
        ).collect();
        while let Some((parent, depth)) = (!frontier.is_empty()).then(|| {
            frontier.remove(0)
        }) {
            if depth >= self.cfg.max_depth {
                continue
            }
            let n_children = if self.cfg.chain {
                1
            }
            else {
                match self.rng.below(10) {
                    0..=2 => 0,
                    3..=6 => 1,
                    7..=8 => 2,
                    _ => 3,
                }
            };
            for _ in 0..n_children {
                if world.cas.len() >= self.cfg.max_cas {
                    break
                }
                let child = self.child_ca(&mut world, parent);
                frontier.push((child, depth + 1));
            }
        }
        // Objects.
        for ca in 0..world.cas.len() {
            let n = self.rng.usize(self.cfg.max_objs + 1);
            for _ in 0..n {
                if let Some(obj) = self.object(&mut world, ca, None) {
                    world.cas[ca].objs.push(obj);
                }
            }
        }
        world
    }

    pub fn pick_location(&mut self) -> (String, String) {
        self.location()
    }

    fn location(&mut self) -> (String, String) {
        if self.rng.chance(self.cfg.dubious_pct, 100) {
            let host = *self.rng.pick(&[
                "localhost", "192.0.2.7", "h9.sim.example:8873", "LOCALHOST",
                "10.0.0.1:873",
            ]);
            return (host.into(), format!("m{}", self.rng.usize(2)))
        }
        let (hosts, modules) = if self.cfg.shared_repos {
            (2, 2)
        } else {
            (4, 3)
        };
        (
            format!("h{}.sim.example", self.rng.usize(hosts)),
            format!("m{}", self.rng.usize(modules)),
        )
    }

    fn ta(&mut self, world: &mut World, t: usize) {
        let idx = world.cas.len();
        let key = self.ca_key();
        let saved = std::mem::replace(&mut self.cfg.dubious_pct, 0);
        let (host, module) = self.location();
        self.cfg.dubious_pct = saved;
        let rrdp = self.rng.chance(self.cfg.rrdp_pct, 100).then(|| {
            self.rng.usize(world.repos.len())
        });
        let res = if self.rng.chance(self.cfg.ta_all_pct, 100) {
            Res::all()
        }
        else {
            ta_blocks(t)
        };
        let serial = world.serial();
        let cert = CertSpec {
            name: format!("ta{t}.cer"),
            serial,
            nb: self.now - 30 * DAY,
            na: self.now + *self.rng.pick(&[400 * DAY, 400 * DAY, 20 * DAY]),
            res,
            fault: None,
        };
        let spec = self.new_ca(world, idx, None, key, host, module, rrdp, cert);
        // TAL URIs.
        let mut uris = Vec::new();
        let https = format!("https://ta{t}.sim.example/ta/ta{t}.cer");
        let rsync = format!("{}ta{t}.cer", spec.module_uri());
        match self.rng.below(4) {
            0 => uris.push(https),
            1 => uris.push(rsync),
            2 => { uris.push(https); uris.push(rsync); }
            _ => { uris.push(rsync); uris.push(https); }
        }
        world.cas.push(spec);
        world.tals.push(TalSpec {
            name: format!("tal{t}"), ca: idx, key, uris,
        });
    }

    #[allow(clippy::too_many_arguments)]
    fn new_ca(
        &mut self, world: &mut World, idx: usize, parent: Option<usize>,
        key: usize, host: String, module: String, rrdp: Option<usize>,
        cert: CertSpec,
    ) -> CaSpec {
        let mft_ee_serial = world.serial();
        let mft_ee_key = self.ee_key();
        let next = self.now + self.rng.range(2, 72) * 3600;
        CaSpec {
            idx, parent, key, host, module,
            dir: format!("ca{idx}"),
            rrdp, cert,
            objs: Vec::new(),
            unlisted: Vec::new(),
            children: Vec::new(),
            extra_certs: Vec::new(),
            revoked: BTreeSet::new(),
            mft_number: 1 + self.rng.below(1000),
            this_update: self.now - 600,
            next_update: next,
            mft_ee_serial,
            mft_ee_nb: self.now - 900,
            mft_ee_na: next + self.rng.range(0, 48) * 3600,
            mft_ee_key,
            mft_fault: None,
            crl_number: 1 + self.rng.below(1000),
            crl_this_update: self.now - 600,
            crl_next_update: next + self.rng.range(-1, 6) * 1800,
            crl_fault: None,
            pub_faults: Vec::new(),
            active: true,
        }
    }

    pub fn child_ca(&mut self, world: &mut World, parent: usize) -> usize {
        let idx = world.cas.len();
        let key = self.ca_key();
        let (host, module, rrdp) = if self.rng.chance(40, 100) {
            // Same repository as the parent.
            let p = &world.cas[parent];
            (p.host.clone(), p.module.clone(), p.rrdp)
        }
        else {
            let (host, module) = self.location();
            let rrdp = self.rng.chance(self.cfg.rrdp_pct, 100).then(|| {
                self.rng.usize(world.repos.len())
            });
            (host, module, rrdp)
        };
        let mut res = self.sub_resources(&effective_pool(world, parent));
        if self.cfg.wide_children && self.rng.chance(60, 100) {
            // Nest inside a sibling's resources.
            let siblings: Vec<P4> = world.cas[parent].children.iter()
                .flat_map(|c| world.cas[*c].cert.res.v4.clone()).collect();
            if !siblings.is_empty() {
                let base = *self.rng.pick(&siblings);
                let nested = self.sub_v4(base, 2, 6, 28);
                if nested != base {
                    res.v4 = vec![nested];
                }
            }
        }
        if self.cfg.wide_children && self.rng.chance(60, 100) {
            // The same for IPv6.
            let siblings: Vec<P6> = world.cas[parent].children.iter()
                .flat_map(|c| world.cas[*c].cert.res.v6.clone())
                .filter(|p| p.len != 0).collect();
            if !siblings.is_empty() {
                let base = *self.rng.pick(&siblings);
                let nested = self.sub_v6(base, 2, 8, 64);
                if nested != base {
                    res.v6 = vec![nested];
                }
            }
        }
        if self.cfg.wide_children && self.rng.chance(35, 100) {
            // All of one address family, specific blocks of the other.
            let pool = world.cas[parent].cert.res.clone();
            if self.rng.chance(50, 100) {
                if pool.v4.iter().any(|p| p.len == 0) {
                    res.v4 = vec![P4::new(0, 0)];
                }
            }
            else if pool.v6.iter().any(|p| p.len == 0) {
                res.v6 = vec![P6::new(0, 0)];
            }
        }
        let serial = world.serial();
        let cert = CertSpec {
            name: format!("ca{idx}.cer"),
            serial,
            nb: self.now - 10 * DAY,
            na: self.now + *self.rng.pick(
                &[300 * DAY, 300 * DAY, 90 * DAY, 5 * DAY]
            ),
            res,
            fault: None,
        };
        let spec = self.new_ca(
            world, idx, Some(parent), key, host, module, rrdp, cert
        );
        world.cas.push(spec);
        world.cas[parent].children.push(idx);
        idx
    }

    /// Picks resources inside `pool`.
    pub fn sub_resources(&mut self, pool: &Res) -> Res {
        let mut res = Res::default();
        let n4 = 1 + self.rng.usize(2);
        for _ in 0..n4 {
            if pool.v4.is_empty() { break }
            let base = *self.rng.pick(&pool.v4);
            let (lo, hi) = if self.cfg.wide_children { (1, 4) } else { (2, 8) };
            res.v4.push(self.sub_v4(base, lo, hi, 24));
        }
        if !pool.v6.is_empty() {
            let base = *self.rng.pick(&pool.v6);
            res.v6.push(self.sub_v6(base, 4, 16, 64));
        }
        if !pool.asn.is_empty() {
            let (lo, hi) = *self.rng.pick(&pool.asn);
            let width = (hi - lo) / 4;
            if width >= 4 {
                let start = lo + self.rng.below(4) as u32 * width;
                res.asn.push((start, start + width - 1));
            }
            else {
                res.asn.push((lo, hi));
            }
        }
        res.v4.sort();
        res.v4.dedup();
        // Drop prefixes covered by another or adjacent to another so that
        // containment stays decidable item by item.
        let v4 = res.v4.clone();
        res.v4.retain(|p| {
            !v4.iter().any(|q| q != p && (q.covers(*p) || adjacent4(*q, *p)))
        });
        res
    }

    pub fn sub_v4(&mut self, base: P4, min: u8, max: u8, cap: u8) -> P4 {
        let extra = self.rng.range(min as i64, max as i64) as u8;
        let len = (base.len + extra).min(cap).max(base.len);
        let bits = len - base.len;
        let add = if bits == 0 { 0 } else {
            (self.rng.below(1 << bits) as u32) << (32 - len)
        };
        P4::new(base.addr | add, len)
    }

    pub fn sub_v6(&mut self, base: P6, min: u8, max: u8, cap: u8) -> P6 {
        let extra = self.rng.range(min as i64, max as i64) as u8;
        let len = (base.len + extra).min(cap).max(base.len);
        let bits = len - base.len;
        let add = if bits == 0 { 0 } else {
            (self.rng.below(1 << bits.min(32)) as u128) << (128 - len)
        };
        P6::new(base.addr | add, len)
    }

    /// Generates an object for `ca`.
    pub fn object(
        &mut self, world: &mut World, ca: usize, kind: Option<u64>,
    ) -> Option<ObjSpec> {
        let res = world.cas[ca].cert.res.clone();
        let pool = effective_pool(world, ca);
        let res = if res == Res::all() { pool } else { res };
        let kind = kind.unwrap_or_else(|| self.rng.below(10));
        let payload = match kind {
            0..=5 => {
                let asn = 64500 + self.rng.below(6) as u32;
                let mut v4 = Vec::new();
                let mut v6 = Vec::new();
                let n = 1 + self.rng.usize(2);
                for _ in 0..n {
                    if self.rng.chance(70, 100) && !res.v4.is_empty() {
                        let base = *self.rng.pick(&res.v4);
                        let p = self.sub_v4(base, 0, 6, 32);
                        let max = match self.rng.below(3) {
                            0 => None,
                            1 => Some(p.len),
                            _ => Some((p.len + self.rng.below(4) as u8).min(32)),
                        };
                        if !v4.iter().any(|(q, _): &(P4, Option<u8>)| *q == p) {
                            v4.push((p, max));
                        }
                    }
                    else if !res.v6.is_empty() {
                        let base = *self.rng.pick(&res.v6);
                        let p = self.sub_v6(base, 0, 16, 128);
                        let max = match self.rng.below(3) {
                            0 => None,
                            1 => Some(p.len),
                            _ => Some(
                                (p.len + self.rng.below(8) as u8).min(128)
                            ),
                        };
                        if !v6.iter().any(|(q, _): &(P6, Option<u8>)| *q == p) {
                            v6.push((p, max));
                        }
                    }
                }
                if v4.is_empty() && v6.is_empty() {
                    return None
                }
                Payload::Roa { asn, v4, v6 }
            }
            6 | 7 => {
                let (lo, hi) = *res.asn.first()?;
                let customer = lo + self.rng.below((hi - lo + 1).min(4) as u64) as u32;
                let n = 1 + self.rng.usize(4);
                let mut providers: Vec<u32> = (0..n).map(|_| {
                    65000 + self.rng.below(8) as u32
                }).collect();
                providers.sort();
                providers.dedup();
                providers.retain(|p| *p != customer);
                if providers.is_empty() {
                    return None
                }
                Payload::Aspa { customer, providers }
            }
            8 => {
                let (lo, hi) = *res.asn.first()?;
                let n = 1 + self.rng.usize(2);
                let mut asns: Vec<u32> = (0..n).map(|_| {
                    lo + self.rng.below((hi - lo + 1).min(4) as u64) as u32
                }).collect();
                asns.sort();
                asns.dedup();
                Payload::Router { asns, ec: self.rng.usize(crate::pki::N_EC) }
            }
            _ => {
                if self.rng.chance(50, 100) { Payload::Gbr }
                else { Payload::Other }
            }
        };
        let serial = world.serial();
        Some(ObjSpec {
            name: self.obj_name(payload.ext()),
            payload,
            serial,
            nb: self.now - 3600,
            na: self.now + *self.rng.pick(
                &[60 * DAY, 60 * DAY, 10 * DAY, 2 * DAY]
            ),
            ee_key: self.ee_key(),
            fault: None,
            salt: self.rng.below(1000) as i64,
        })
    }

    pub fn sig_fault(&mut self) -> SigFault {
        *self.rng.pick(&[
            SigFault::WrongIssuerKey, SigFault::WrongCmsKey,
            SigFault::Garbage, SigFault::CrlUriMismatch,
        ])
    }

    /// A certificate for an ancestor's key published by `ca` (cycle).
    pub fn cycle_cert(
        &mut self, world: &mut World, ca: usize
    ) -> Option<ExtraCert> {
        // Pick any CA on the chain of `ca` (including itself).
        let mut chain = vec![ca];
        let mut cur = ca;
        while let Some(parent) = world.cas[cur].parent {
            chain.push(parent);
            cur = parent;
        }
        let target = *self.rng.pick(&chain);
        let res = self.sub_resources(&effective_pool(world, ca));
        let serial = world.serial();
        Some(ExtraCert {
            name: format!("loop{}.cer", serial),
            target,
            serial,
            nb: self.now - DAY,
            na: self.now + 100 * DAY,
            res,
        })
    }
}

fn adjacent4(a: P4, b: P4) -> bool {
    (a.last() as u64) + 1 == b.first() as u64
        || (b.last() as u64) + 1 == a.first() as u64
}

/// The concrete blocks a TA number `t` works with.
pub fn ta_blocks(t: usize) -> Res {
    let t32 = t as u32;
    Res {
        v4: vec![
            P4::new((10 + 40 * t32) << 24, 8),
            P4::new((12 + 40 * t32) << 24, 8),
            P4::new((14 + 40 * t32) << 24, 8),
        ],
        v6: vec![
            P6::new((0x2001u128 << 112) | (((t + 1) as u128) << 96), 32),
            P6::new((0x2a00u128 + 2 * t as u128) << 112, 16),
        ],
        asn: vec![
            ((t32 + 1) * 100_000, (t32 + 1) * 100_000 + 9_999),
        ],
    }
}

/// The resources a CA can hand out: its own, or the blocks of its TA if it
/// claims everything.
pub fn effective_pool(world: &World, ca: usize) -> Res {
    let spec = &world.cas[ca];
    if spec.cert.res != Res::all() {
        return spec.cert.res.clone()
    }
    // Find the TA index.
    let mut cur = ca;
    while let Some(parent) = world.cas[cur].parent {
        cur = parent;
    }
    let t = world.tals.iter().position(|tal| tal.ca == cur).unwrap_or(0);
    ta_blocks(t)
}

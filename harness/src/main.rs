//! rtsim: deterministic simulation harness for Routinator.

mod sim;
mod pki;
mod world;
mod servers;
mod model;
mod gen;
mod enga;
mod engb;
mod engc;
mod enge;
mod engf;
mod engg;
#[cfg(feature = "shuttle")]
mod engd;
mod common;
mod props;
mod driver;

use std::collections::BTreeSet;
use std::path::PathBuf;

struct StderrLog;

impl log::Log for StderrLog {
    fn enabled(&self, _: &log::Metadata) -> bool { true }
    fn log(&self, record: &log::Record) {
        eprintln!("[{}] {}", record.level(), record.args());
    }
    fn flush(&self) { }
}

fn main() {
    let args: Vec<String> = std::env::args().collect();
    // Debugging aid only: the routinator log on stderr.
    if std::env::var_os("VERIF_LOG").is_some()
        && !servers::is_fake_rsync_invocation(&args)
    {
        let _ = log::set_logger(&StderrLog);
        log::set_max_level(
            if std::env::var("VERIF_LOG").as_deref() == Ok("debug") {
                log::LevelFilter::Debug
            } else { log::LevelFilter::Info }
        );
    }
    if servers::is_fake_rsync_invocation(&args) {
        std::process::exit(servers::fake_rsync_main(&args));
    }
    match args.get(1).map(String::as_str) {
        Some("enga") => {
            let seed: u64 = args.get(2).map(|s| s.parse().unwrap()).unwrap_or(1);
            let n: u64 = args.get(3).map(|s| s.parse().unwrap()).unwrap_or(1);
            let verbose = args.iter().any(|a| a == "-v");
            let profile = enga::Profile::base("base");
            let scratch = PathBuf::from(format!("/dev/shm/rtsim-{}", std::process::id()));
            let start = std::time::Instant::now();
            let mut bad = 0;
            for s in seed..seed + n {
                let profile = profile.clone();
                let scratch = scratch.clone();
                let res = std::thread::spawn(move || {
                    enga::run(s, &profile, &BTreeSet::new(), &scratch)
                }).join().unwrap();
                if verbose || !res.violations.is_empty() {
                    if !res.violations.is_empty() { bad += 1; }
                    println!("== seed {s}: {} violations", res.violations.len());
                    for line in &res.log { println!("   {line}"); }
                }
            }
            eprintln!("{n} runs, {bad} with violations, {:?}", start.elapsed());
        }
        Some("run") => std::process::exit(driver::cmd_run(&args[2..])),
        Some("shrink") => std::process::exit(driver::cmd_shrink(&args[2..])),
        Some("routinator") => std::process::exit(
            engf::routinator_main(&args[2..])
        ),
        Some("plan") => std::process::exit(driver::cmd_plan(&args[2..])),
        Some("one") => std::process::exit(driver::cmd_one(&args[2..])),
        Some("replay") => std::process::exit(driver::cmd_replay(&args[2..])),
        _ => {
            eprintln!("usage: rtsim enga <seed> <n> [-v]");
            std::process::exit(2);
        }
    }
}

//! The reference model of a validation run.
//!
//! Evaluates the generator's ground truth (never DER) under the documented
//! rules and produces the expected outcome of a run: the payload every CA
//! contributes, what the store and the collector copies hold afterwards.

use std::collections::{BTreeMap, BTreeSet};
use std::rc::Rc;
use crate::pki::{P4, P6, Res};
use crate::world::{
    CertInfo, FileId, FileKind, Files, MftInfo, Payload, TalSpec,
};

#[derive(Clone, Copy, Debug, PartialEq, Eq)]
pub enum Policy { Reject, Warn, Accept }

#[derive(Clone, Copy, Debug, PartialEq, Eq)]
pub enum Fallback { Never, Stale, New }

#[derive(Clone, Debug)]
pub struct RunCfg {
    pub stale: Policy,
    pub unsafe_vrps: Policy,
    pub limit_v4: Option<u8>,
    pub limit_v6: Option<u8>,
    pub bgpsec: bool,
    pub aspa: bool,
    pub max_depth: usize,
    pub rrdp_on: bool,
    pub rsync_on: bool,
    pub fallback: Fallback,
    pub refresh: i64,
    pub fallback_time: i64,
    pub dirty: bool,
    pub max_object_size: Option<u64>,
    pub allow_dubious: bool,
}

//------------ Payload sets --------------------------------------------------

#[derive(Clone, Copy, Debug, PartialEq, Eq, PartialOrd, Ord, Hash)]
pub enum Pfx { V4(P4), V6(P6) }

impl std::fmt::Display for Pfx {
    fn fmt(&self, f: &mut std::fmt::Formatter) -> std::fmt::Result {
        match self {
            Pfx::V4(p) => p.fmt(f),
            Pfx::V6(p) => p.fmt(f),
        }
    }
}

#[derive(Clone, Debug, Default, PartialEq, Eq)]
pub struct PayloadSet {
    /// (asn, prefix, max length)
    pub origins: BTreeSet<(u32, Pfx, u8)>,
    /// (key identifier, asn, key info)
    pub keys: BTreeSet<(Vec<u8>, u32, Vec<u8>)>,
    /// customer -> providers
    pub aspas: BTreeMap<u32, BTreeSet<u32>>,
}

impl PayloadSet {
    pub fn len(&self) -> usize {
        self.origins.len() + self.keys.len() + self.aspas.len()
    }

    pub fn is_empty(&self) -> bool { self.len() == 0 }

    pub fn describe(&self) -> Vec<String> {
        let mut res = Vec::new();
        for (asn, pfx, max) in &self.origins {
            res.push(format!("roa AS{asn} {pfx}-{max}"));
        }
        for (ki, asn, _) in &self.keys {
            res.push(format!(
                "key AS{asn} {}", crate::servers::hex(ki)
            ));
        }
        for (customer, providers) in &self.aspas {
            res.push(format!("aspa AS{customer} {providers:?}"));
        }
        res
    }

    /// Items in `self` that are not in `other` (ASPAs compared whole).
    pub fn minus(&self, other: &PayloadSet) -> Vec<String> {
        let mut res = Vec::new();
        for item in &self.origins {
            if !other.origins.contains(item) {
                res.push(format!("roa AS{} {}-{}", item.0, item.1, item.2));
            }
        }
        for item in &self.keys {
            if !other.keys.contains(item) {
                res.push(format!(
                    "key AS{} {}", item.1, crate::servers::hex(&item.0)
                ));
            }
        }
        for (customer, providers) in &self.aspas {
            if other.aspas.get(customer) != Some(providers) {
                if providers.len() > 12 {
                    res.push(format!(
                        "aspa AS{customer} ({} providers)", providers.len()
                    ));
                }
                else {
                    res.push(format!("aspa AS{customer} {providers:?}"));
                }
            }
        }
        res
    }
}

/// Raw payload items before the snapshot composition.
#[derive(Clone, Debug, Default)]
pub struct RawItems {
    pub origins: Vec<(u32, Pfx, u8)>,
    pub keys: Vec<(Vec<u8>, u32, Vec<u8>)>,
    pub aspas: Vec<(u32, BTreeSet<u32>)>,
    /// The earliest notAfter of the objects that contributed.
    pub min_na: Option<i64>,
}

impl RawItems {
    fn saw(&mut self, na: i64) {
        self.min_na = Some(self.min_na.map_or(na, |x| x.min(na)));
    }

    pub fn is_empty(&self) -> bool {
        self.origins.is_empty() && self.keys.is_empty()
            && self.aspas.is_empty()
    }

    pub fn extend(&mut self, other: &RawItems) {
        self.origins.extend(other.origins.iter().cloned());
        self.keys.extend(other.keys.iter().cloned());
        self.aspas.extend(other.aspas.iter().cloned());
        if let Some(na) = other.min_na { self.saw(na) }
    }
}


//------------ Model state ---------------------------------------------------

/// What the store holds for a publication point.
#[derive(Clone, Debug)]
pub struct StoredPoint {
    pub mft: FileId,
    pub info: Rc<MftInfo>,
    pub crl: FileId,
    pub ca_repository: String,
    /// The rpkiNotify URI of the CA certificate the point was stored for.
    pub rpki_notify: Option<String>,
    pub mft_uri: String,
    /// The objects in manifest order: full URI and file.
    pub objects: Vec<(String, FileId)>,
}

/// The key of a stored point: the store keeps one file per rpkiNotify and
/// manifest URI.
pub fn store_key(cert: &CertInfo) -> String {
    format!(
        "{}|{}",
        cert.rpki_notify.as_deref().unwrap_or("-"), cert.rpki_manifest
    )
}

#[derive(Clone, Debug, Default)]
pub struct RrdpCopy {
    pub objects: BTreeMap<String, FileId>,
    /// The time of the last successful update or 304.
    pub touched: i64,
}

#[derive(Clone, Debug, Default)]
pub struct ModelState {
    /// Stored points keyed by manifest URI.
    pub store: BTreeMap<String, StoredPoint>,
    /// Stored TA certificates keyed by URI.
    pub ta_store: BTreeMap<String, FileId>,
    /// Local rsync copy: module URI -> (object URI -> file).
    pub rsync_copy: BTreeMap<String, BTreeMap<String, FileId>>,
    /// Local RRDP copy keyed by notify URI.
    pub rrdp_copy: BTreeMap<String, RrdpCopy>,
}

/// What the transports do in this run.
#[derive(Clone, Debug, Default)]
pub struct Transport {
    /// Server trees: module URI -> (object URI -> file).
    pub rsync_tree: BTreeMap<String, BTreeMap<String, FileId>>,
    /// Modules for which rsync fails in this run.
    pub rsync_fail: BTreeSet<String>,
    /// RRDP server content keyed by notify URI.
    pub rrdp_objects: BTreeMap<String, BTreeMap<String, FileId>>,
    /// Repositories whose update fails in this run.
    pub rrdp_fail: BTreeSet<String>,
    /// HTTPS TA certificates: URI -> file (absent: download fails).
    pub https_ta: BTreeMap<String, FileId>,
}

#[derive(Clone, Copy, Debug, PartialEq, Eq)]
pub enum Used {
    /// The newly collected version was accepted and stored.
    New,
    /// The stored version was used.
    Stored,
    /// The publication point was rejected.
    Rejected,
}

#[derive(Clone, Debug)]
pub struct CaOutcome {
    pub ca: usize,
    pub mft_uri: String,
    pub used: Used,
    pub items: RawItems,
    /// Items of the collected version if its update was abandoned after
    /// manifest validation.
    pub abandoned_items: Option<RawItems>,
    pub res: Res,
    /// Via which transport the repository was accessed (if any).
    pub via: Option<Via>,
    /// Upper bound for the refresh time from this point and its chain.
    pub refresh_bound: i64,
    pub depth: usize,
}

#[derive(Clone, Copy, Debug, PartialEq, Eq)]
pub enum Via { Rrdp, Rsync }

#[derive(Clone, Debug, Default)]
pub struct Expect {
    pub outcomes: Vec<CaOutcome>,
    /// The exact expected set before SLURM.
    pub strict: PayloadSet,
    /// Everything that can be traced to a valid object (superset of strict).
    pub loose: PayloadSet,
    /// rsync modules the run must have tried to fetch (each at most once).
    pub rsync_modules: BTreeSet<String>,
    /// RRDP repositories the run must have tried to update.
    pub rrdp_repos: BTreeSet<String>,
    /// Upper bound for the snapshot's refresh time (None: no payload).
    pub refresh_bound: Option<i64>,
    pub large_aspas: usize,
    /// TALs for which a TA certificate was found valid.
    pub tals_ok: Vec<String>,
}

struct Ctx<'a> {
    files: &'a Files,
    cfg: &'a RunCfg,
    transport: &'a Transport,
    now: i64,
    state: &'a mut ModelState,
    expect: Expect,
    /// Result of the RRDP update per repository, computed at first access.
    rrdp_done: BTreeMap<String, RrdpResult>,
    rsync_done: BTreeSet<String>,
    visited_points: BTreeSet<String>,
}

#[derive(Clone, Copy, Debug, PartialEq, Eq)]
enum RrdpResult { Updated, Current, Stale, Unavailable }

pub fn is_dubious(host: &str) -> bool {
    // Mirrors the documented rule: localhost, IP literals, explicit ports.
    let host = host.to_ascii_lowercase();
    if host == "localhost" { return true }
    if host.starts_with('[') { return true }
    if host.contains(':') { return true }
    if host.parse::<std::net::Ipv4Addr>().is_ok() { return true }
    false
}

fn uri_host(uri: &str) -> &str {
    let rest = uri.split("://").nth(1).unwrap_or("");
    rest.split('/').next().unwrap_or("")
}

pub fn module_of(uri: &str) -> String {
    // rsync://host/module/...
    let rest = uri.strip_prefix("rsync://").unwrap_or(uri);
    let mut parts = rest.splitn(3, '/');
    let host = parts.next().unwrap_or("");
    let module = parts.next().unwrap_or("");
    format!("rsync://{}/{}/", host.to_ascii_lowercase(), module)
}

impl Ctx<'_> {
    fn load_module(&mut self, module: &str) {
        if !self.rsync_done.insert(module.into()) {
            return
        }
        if !self.cfg.allow_dubious && is_dubious(uri_host(module)) {
            return
        }
        self.expect.rsync_modules.insert(module.into());
        if self.transport.rsync_fail.contains(module) {
            return
        }
        match self.transport.rsync_tree.get(module) {
            Some(tree) => {
                self.state.rsync_copy.insert(module.into(), tree.clone());
            }
            None => {
                // Unknown module: rsync fails, copy unchanged.
            }
        }
    }

    fn load_rrdp(&mut self, notify: &str) -> RrdpResult {
        if let Some(res) = self.rrdp_done.get(notify) {
            return *res
        }
        let res = if !self.cfg.allow_dubious && is_dubious(uri_host(notify)) {
            RrdpResult::Unavailable
        }
        else {
            self.expect.rrdp_repos.insert(notify.into());
            let oversize = match (
                self.cfg.max_object_size,
                self.transport.rrdp_objects.get(notify)
            ) {
                (Some(max), Some(objects)) => objects.values().any(|id| {
                    self.files.get(*id).bytes.len() as u64 > max
                }),
                _ => false
            };
            let fail = self.transport.rrdp_fail.contains(notify)
                || !self.transport.rrdp_objects.contains_key(notify)
                || oversize;
            if !fail {
                self.state.rrdp_copy.insert(notify.into(), RrdpCopy {
                    objects: self.transport.rrdp_objects[notify].clone(),
                    touched: self.now,
                });
                RrdpResult::Updated
            }
            else {
                match self.state.rrdp_copy.get(notify) {
                    None => RrdpResult::Unavailable,
                    Some(copy) => {
                        let age = self.now - copy.touched;
                        let max = std::cmp::max(
                            2 * self.cfg.refresh, self.cfg.fallback_time
                        );
                        if age < self.cfg.refresh {
                            RrdpResult::Current
                        }
                        else if age > max {
                            RrdpResult::Stale
                        }
                        else {
                            panic!(
                                "generator bug: RRDP failure with ambiguous \
                                 copy age {age}"
                            );
                        }
                    }
                }
            }
        };
        self.rrdp_done.insert(notify.into(), res);
        res
    }

    /// Which copy the collector hands out for a CA.
    fn repository(&mut self, cert: &CertInfo) -> Option<Via> {
        if let Some(notify) = cert.rpki_notify.as_ref() {
            if self.cfg.rrdp_on {
                match self.load_rrdp(notify) {
                    RrdpResult::Updated => return Some(Via::Rrdp),
                    RrdpResult::Current => return None,
                    RrdpResult::Stale => {
                        if self.cfg.fallback != Fallback::Stale {
                            return None
                        }
                    }
                    RrdpResult::Unavailable => {
                        if self.cfg.fallback == Fallback::Never {
                            return None
                        }
                    }
                }
            }
        }
        if self.cfg.rsync_on {
            self.load_module(&module_of(&cert.ca_repository));
            return Some(Via::Rsync)
        }
        None
    }

    fn load_object(
        &self, via: Via, cert: &CertInfo, uri: &str
    ) -> Option<FileId> {
        match via {
            Via::Rrdp => {
                let notify = cert.rpki_notify.as_ref()?;
                self.state.rrdp_copy.get(notify)?.objects.get(uri).copied()
            }
            Via::Rsync => {
                self.state.rsync_copy.get(&module_of(uri))?.get(uri).copied()
            }
        }
    }

    fn stale_rejects(&self, next_update: i64) -> bool {
        self.cfg.stale == Policy::Reject && next_update < self.now
    }

    /// Is the EE certificate valid under the given issuer at `now`?
    fn ee_valid(
        &self, ee: &crate::world::EeInfo, issuer_key: usize,
    ) -> bool {
        ee.issuer_key == Some(issuer_key) && ee.cms_ok
            && ee.nb <= self.now && self.now <= ee.na
    }
}

/// The context of a CA being processed.
#[derive(Clone)]
struct CaCtx {
    cert: Rc<CertInfo>,
    /// The effective resources.
    res: Res,
    /// Keys on the chain including this CA's.
    chain: Vec<usize>,
    depth: usize,
    /// min of notAfter over the chain
    refresh_bound: i64,
}

pub fn evaluate(
    files: &Files, tals: &[TalSpec], cfg: &RunCfg, transport: &Transport,
    now: i64, state: &mut ModelState,
) -> Expect {
    let mut ctx = Ctx {
        files, cfg, transport, now, state,
        expect: Expect::default(),
        rrdp_done: BTreeMap::new(),
        rsync_done: BTreeSet::new(),
        visited_points: BTreeSet::new(),
    };
    let mut tals: Vec<&TalSpec> = tals.iter().collect();
    tals.sort_by(|a, b| a.name.cmp(&b.name));
    for tal in tals {
        ctx.process_tal(tal);
    }
    ctx.finish()
}

impl Ctx<'_> {
    fn process_tal(&mut self, tal: &TalSpec) {
        // HTTPS URIs first, order otherwise kept.
        let mut uris: Vec<&String> = tal.uris.iter().filter(|u| {
            u.starts_with("https://")
        }).collect();
        uris.extend(tal.uris.iter().filter(|u| !u.starts_with("https://")));
        for uri in uris {
            let fetched = if uri.starts_with("https://") {
                if self.cfg.rrdp_on {
                    self.load_https_ta(uri)
                }
                else {
                    None
                }
            }
            else if self.cfg.rsync_on {
                let module = module_of(uri);
                self.load_module(&module);
                self.state.rsync_copy.get(&module).and_then(|tree| {
                    tree.get(uri.as_str()).copied()
                })
            }
            else {
                None
            };
            let mut cert = None;
            if let Some(id) = fetched {
                if let FileKind::CaCert(info) = &self.files.get(id).kind {
                    if info.decodable {
                        self.state.ta_store.insert(uri.clone(), id);
                        cert = Some(info.clone());
                    }
                }
            }
            if cert.is_none() {
                if let Some(id) = self.state.ta_store.get(uri) {
                    if let FileKind::CaCert(info) = &self.files.get(*id).kind {
                        if info.decodable {
                            cert = Some(info.clone());
                        }
                    }
                }
            }
            let Some(cert) = cert else { continue };
            if cert.subject_key != tal.key {
                continue
            }
            // validate_ta: validity, self-signature.
            if cert.issuer_key != Some(cert.subject_key) {
                continue
            }
            if !(cert.nb <= self.now && self.now <= cert.na) {
                continue
            }
            self.expect.tals_ok.push(tal.name.clone());
            let ca = CaCtx {
                res: cert.res.clone(),
                chain: vec![cert.subject_key],
                depth: 0,
                refresh_bound: cert.na,
                cert,
            };
            self.process_ca(ca);
            return
        }
    }

    fn load_https_ta(&mut self, uri: &str) -> Option<FileId> {
        // TA downloads are not subject to the dubious host filter in the
        // collector (only rpkiNotify and rsync module URIs are).
        let id = *self.transport.https_ta.get(uri)?;
        let len = self.files.get(id).bytes.len() as u64;
        if let Some(max) = self.cfg.max_object_size {
            if len > max {
                return None
            }
        }
        Some(id)
    }

    fn process_ca(&mut self, ca: CaCtx) {
        let cert = ca.cert.clone();
        let mft_uri = cert.rpki_manifest.clone();
        self.visited_points.insert(mft_uri.clone());
        let via = self.repository(&cert);

        let mut abandoned_items = None;
        if let Some(via) = via {
            match self.try_collected(&ca, via) {
                Collected::Accepted(items, children) => {
                    self.done(
                        &ca, Used::New, items, None, Some(via), children
                    );
                    return
                }
                Collected::Abandoned(items) => {
                    abandoned_items = Some(items);
                }
                Collected::UseStored => { }
            }
        }
        // Stored path.
        match self.try_stored(&ca) {
            Some((items, children)) => {
                self.done(
                    &ca, Used::Stored, items, abandoned_items, via, children
                );
            }
            None => {
                self.done(
                    &ca, Used::Rejected, RawItems::default(),
                    abandoned_items, via, Vec::new()
                );
            }
        }
    }

    fn done(
        &mut self, ca: &CaCtx, used: Used, items: RawItems,
        abandoned_items: Option<RawItems>, via: Option<Via>,
        children: Vec<CaCtx>,
    ) {
        let refresh_bound = match used {
            Used::Rejected => ca.refresh_bound,
            _ => {
                let stored = &self.state.store[&store_key(&ca.cert)];
                let crl_next = match &self.files.get(stored.crl).kind {
                    FileKind::Crl(info) => info.next_update,
                    _ => i64::MAX
                };
                ca.refresh_bound
                    .min(stored.info.ee.na)
                    .min(stored.info.next_update)
                    .min(crl_next)
            }
        };
        self.expect.outcomes.push(CaOutcome {
            ca: ca.cert.target,
            mft_uri: ca.cert.rpki_manifest.clone(),
            used, items, abandoned_items,
            res: ca.res.clone(),
            via, refresh_bound,
            depth: ca.depth,
        });
        for mut child in children {
            child.refresh_bound = child.refresh_bound.min(refresh_bound);
            self.process_ca(child);
        }
    }

    fn try_collected(&mut self, ca: &CaCtx, via: Via) -> Collected {
        let cert = &ca.cert;
        let mft_uri = &cert.rpki_manifest;
        let Some(mft_id) = self.load_object(via, cert, mft_uri) else {
            return Collected::UseStored
        };
        if let Some(stored) = self.state.store.get(&store_key(cert)) {
            if stored.mft == mft_id
                && stored.ca_repository == cert.ca_repository
            {
                return Collected::UseStored
            }
        }
        let FileKind::Mft(info) = &self.files.get(mft_id).kind else {
            return Collected::UseStored
        };
        let info = info.clone();
        // validate_collected_manifest
        if !info.decodable || !self.ee_valid(&info.ee, cert.subject_key) {
            return Collected::UseStored
        }
        if info.this_update > self.now {
            return Collected::UseStored
        }
        if self.stale_rejects(info.next_update) {
            return Collected::UseStored
        }
        // CRL
        let crl_uri = &info.ee.crl_uri;
        if !crl_uri.ends_with(".crl") {
            return Collected::UseStored
        }
        let Some(crl_name) = crl_uri.strip_prefix(&cert.ca_repository) else {
            return Collected::UseStored
        };
        let mut crl_id = None;
        for (name, hash) in &info.entries {
            if name.as_slice() == crl_name.as_bytes() {
                let Some(id) = self.load_object(via, cert, crl_uri) else {
                    return Collected::UseStored
                };
                if self.files.get(id).hash != *hash {
                    return Collected::UseStored
                }
                crl_id = Some(id);
            }
        }
        let Some(crl_id) = crl_id else { return Collected::UseStored };
        let FileKind::Crl(crl) = &self.files.get(crl_id).kind else {
            return Collected::UseStored
        };
        let crl = crl.clone();
        if !crl.decodable || crl.issuer_key != Some(cert.subject_key) {
            return Collected::UseStored
        }
        if self.stale_rejects(crl.next_update) {
            return Collected::UseStored
        }
        if crl.revoked.contains(&info.ee.serial) {
            return Collected::UseStored
        }
        // Newer than stored?
        if let Some(stored) = self.state.store.get(&store_key(cert)) {
            if !(info.number > stored.info.number
                && info.this_update > stored.info.this_update)
            {
                return Collected::UseStored
            }
        }
        // Objects: all present with matching hash? (Evaluated in manifest
        // order for the abandoned-items bookkeeping only.)
        let mut objects = Vec::new();
        let mut complete = true;
        for (name, hash) in &info.entries {
            let Ok(name) = std::str::from_utf8(name) else {
                complete = false;
                break
            };
            if !name.is_ascii() {
                complete = false;
                break
            }
            let uri = format!("{}{}", cert.ca_repository, name);
            match self.load_object(via, cert, &uri) {
                Some(id) if self.files.get(id).hash == *hash => {
                    objects.push((uri, id));
                }
                _ => {
                    complete = false;
                    break
                }
            }
        }
        if !complete {
            // Everything that verifies in the collected version is what
            // could leak; determine it over all retrievable entries.
            let mut avail = Vec::new();
            for (name, hash) in &info.entries {
                let Ok(name) = std::str::from_utf8(name) else { continue };
                let uri = format!("{}{}", cert.ca_repository, name);
                if let Some(id) = self.load_object(via, cert, &uri) {
                    if self.files.get(id).hash == *hash {
                        avail.push((uri, id));
                    }
                }
            }
            let (items, _) = self.eval_objects(ca, &avail, crl_uri, &crl);
            return Collected::Abandoned(items)
        }
        let (items, children) = self.eval_objects(ca, &objects, crl_uri, &crl);
        self.state.store.insert(store_key(cert), StoredPoint {
            mft: mft_id,
            info,
            crl: crl_id,
            ca_repository: cert.ca_repository.clone(),
            rpki_notify: cert.rpki_notify.clone(),
            mft_uri: mft_uri.clone(),
            objects,
        });
        Collected::Accepted(items, children)
    }

    fn try_stored(&mut self, ca: &CaCtx) -> Option<(RawItems, Vec<CaCtx>)> {
        let cert = &ca.cert;
        let stored = self.state.store.get(&store_key(cert))?.clone();
        let info = &stored.info;
        if !info.decodable || !self.ee_valid(&info.ee, cert.subject_key) {
            return None
        }
        if self.stale_rejects(info.next_update) {
            return None
        }
        let FileKind::Crl(crl) = &self.files.get(stored.crl).kind else {
            return None
        };
        let crl = crl.clone();
        if !crl.decodable || crl.issuer_key != Some(cert.subject_key) {
            return None
        }
        if self.stale_rejects(crl.next_update) {
            return None
        }
        if crl.revoked.contains(&info.ee.serial) {
            return None
        }
        Some(self.eval_objects(ca, &stored.objects, &info.ee.crl_uri, &crl))
    }

    /// Evaluates the objects of a version under a CA.
    fn eval_objects(
        &self, ca: &CaCtx, objects: &[(String, FileId)],
        crl_uri: &str, crl: &crate::world::CrlInfo,
    ) -> (RawItems, Vec<CaCtx>) {
        let mut items = RawItems::default();
        let mut children = Vec::new();
        let issuer_key = ca.cert.subject_key;
        for (uri, id) in objects {
            let file = self.files.get(*id);
            if uri.ends_with(".cer") {
                match &file.kind {
                    FileKind::CaCert(info) => {
                        if let Some(child) = self.eval_ca_cert(
                            ca, info, crl_uri, crl
                        ) {
                            children.push(child)
                        }
                    }
                    FileKind::Obj(info) => {
                        let Payload::Router { asns, ec } = &info.payload else {
                            continue
                        };
                        if !info.decodable
                            || info.ee.issuer_key != Some(issuer_key)
                            || !(info.ee.nb <= self.now
                                && self.now <= info.ee.na)
                            || info.ee.crl_uri != crl_uri
                            || crl.revoked.contains(&info.ee.serial)
                            || !asns.iter().all(|a| ca.res.covers_asn(*a, *a))
                        {
                            continue
                        }
                        if !self.cfg.bgpsec {
                            continue
                        }
                        let key = crate::pki::pool().ec_pub(*ec);
                        items.saw(info.ee.na);
                        for asn in asns {
                            items.keys.push((
                                key.key_identifier().as_slice().to_vec(),
                                *asn,
                                key.to_info_bytes().to_vec(),
                            ));
                        }
                    }
                    _ => { }
                }
                continue
            }
            let FileKind::Obj(info) = &file.kind else { continue };
            if !info.decodable
                || !self.ee_valid(&info.ee, issuer_key)
                || info.ee.crl_uri != crl_uri
                || crl.revoked.contains(&info.ee.serial)
            {
                continue
            }
            match &info.payload {
                Payload::Roa { asn, v4, v6 } if uri.ends_with(".roa") => {
                    if !v4.iter().all(|(p, _)| ca.res.covers_v4(*p))
                        || !v6.iter().all(|(p, _)| ca.res.covers_v6(*p))
                    {
                        continue
                    }
                    for (p, max) in v4 {
                        if let Some(limit) = self.cfg.limit_v4 {
                            if p.len > limit { continue }
                        }
                        items.saw(info.ee.na);
                        items.origins.push((
                            *asn, Pfx::V4(*p), max.unwrap_or(p.len)
                        ));
                    }
                    for (p, max) in v6 {
                        if let Some(limit) = self.cfg.limit_v6 {
                            if p.len > limit { continue }
                        }
                        items.saw(info.ee.na);
                        items.origins.push((
                            *asn, Pfx::V6(*p), max.unwrap_or(p.len)
                        ));
                    }
                }
                Payload::Aspa { customer, providers }
                    if uri.ends_with(".asa") =>
                {
                    if !ca.res.covers_asn(*customer, *customer) {
                        continue
                    }
                    if !self.cfg.aspa {
                        continue
                    }
                    items.saw(info.ee.na);
                    items.aspas.push((
                        *customer, providers.iter().copied().collect()
                    ));
                }
                _ => { }
            }
        }
        (items, children)
    }

    fn eval_ca_cert(
        &self, ca: &CaCtx, info: &Rc<CertInfo>,
        crl_uri: &str, crl: &crate::world::CrlInfo,
    ) -> Option<CaCtx> {
        if !info.decodable {
            return None
        }
        // Loop check comes first.
        if ca.chain.contains(&info.subject_key) {
            return None
        }
        if info.issuer_key != Some(ca.cert.subject_key) {
            return None
        }
        if !(info.nb <= self.now && self.now <= info.na) {
            return None
        }
        if !ca.res.contains(&info.res) {
            return None
        }
        if info.crl_uri != crl_uri {
            return None
        }
        if crl.revoked.contains(&info.serial) {
            return None
        }
        if ca.depth + 1 > self.cfg.max_depth {
            return None
        }
        let mut chain = ca.chain.clone();
        chain.push(info.subject_key);
        Some(CaCtx {
            cert: info.clone(),
            res: info.res.clone(),
            chain,
            depth: ca.depth + 1,
            refresh_bound: ca.refresh_bound.min(info.na),
        })
    }

    fn finish(mut self) -> Expect {
        // Compose the expected snapshot.
        let mut rejected_v4: Vec<P4> = Vec::new();
        let mut rejected_v6: Vec<P6> = Vec::new();
        for outcome in &self.expect.outcomes {
            if outcome.used == Used::Rejected {
                rejected_v4.extend(
                    outcome.res.v4.iter().filter(|p| p.len != 0)
                );
                rejected_v6.extend(
                    outcome.res.v6.iter().filter(|p| p.len != 0)
                );
            }
        }
        let keep = |pfx: &Pfx| -> bool {
            match pfx {
                Pfx::V4(p) => !rejected_v4.iter().any(|r| r.overlaps(*p)),
                Pfx::V6(p) => !rejected_v6.iter().any(|r| r.overlaps(*p)),
            }
        };
        let mut strict = PayloadSet::default();
        let mut loose = PayloadSet::default();
        let mut refresh: Option<i64> = None;
        let mut aspas: BTreeMap<u32, BTreeSet<u32>> = BTreeMap::new();
        let mut loose_aspas: BTreeMap<u32, BTreeSet<u32>> = BTreeMap::new();
        for outcome in &self.expect.outcomes {
            if !outcome.items.is_empty() {
                let bound = outcome.refresh_bound.min(
                    outcome.items.min_na.unwrap_or(i64::MAX)
                );
                refresh = Some(match refresh {
                    Some(old) => old.min(bound),
                    None => bound
                });
            }
            for item in &outcome.items.origins {
                loose.origins.insert(*item);
                if self.cfg.unsafe_vrps == Policy::Reject && !keep(&item.1) {
                    continue
                }
                strict.origins.insert(*item);
            }
            for item in &outcome.items.keys {
                strict.keys.insert(item.clone());
                loose.keys.insert(item.clone());
            }
            for (customer, providers) in &outcome.items.aspas {
                aspas.entry(*customer).or_default().extend(providers);
                loose_aspas.entry(*customer).or_default().extend(providers);
            }
            if let Some(items) = outcome.abandoned_items.as_ref() {
                for item in &items.origins {
                    loose.origins.insert(*item);
                }
                for item in &items.keys {
                    loose.keys.insert(item.clone());
                }
                for (customer, providers) in &items.aspas {
                    loose_aspas.entry(*customer).or_default()
                        .extend(providers);
                }
            }
        }
        for (customer, providers) in aspas {
            if providers.len() > MAX_ASPA_PROVIDERS {
                self.expect.large_aspas += 1;
                continue
            }
            strict.aspas.insert(customer, providers);
        }
        loose.aspas = loose_aspas;
        self.expect.strict = strict;
        self.expect.loose = loose;
        self.expect.refresh_bound = refresh;
        self.expect
    }
}

/// The payload items an object carries, irrespective of its validity.
pub fn raw_items_of(payload: &Payload) -> RawItems {
    let mut items = RawItems::default();
    match payload {
        Payload::Roa { asn, v4, v6 } => {
            for (p, max) in v4 {
                items.origins.push((*asn, Pfx::V4(*p), max.unwrap_or(p.len)));
            }
            for (p, max) in v6 {
                items.origins.push((*asn, Pfx::V6(*p), max.unwrap_or(p.len)));
            }
        }
        Payload::Aspa { customer, providers } => {
            items.aspas.push((*customer, providers.iter().copied().collect()));
        }
        Payload::Router { asns, ec } => {
            let key = crate::pki::pool().ec_pub(*ec);
            for asn in asns {
                items.keys.push((
                    key.key_identifier().as_slice().to_vec(), *asn,
                    key.to_info_bytes().to_vec(),
                ));
            }
        }
        _ => { }
    }
    items
}

/// The largest provider set that fits into an RTR ASPA PDU.
pub const MAX_ASPA_PROVIDERS: usize = 16380;

enum Collected {
    Accepted(RawItems, Vec<CaCtx>),
    Abandoned(RawItems),
    UseStored,
}

/// Applies the cleanup the real code performs after a successful run.
pub fn cleanup(
    files: &Files, state: &mut ModelState, now: i64,
    accessed_modules: &BTreeSet<String>, accessed_repos: &BTreeSet<String>,
    rsync_on: bool, rrdp_on: bool,
) {
    // Stored points with an expired manifest EE certificate go.
    state.store.retain(|_, point| point.info.ee.na > now);
    // Stored TA certificates that are expired or undecodable go.
    state.ta_store.retain(|_, id| {
        match &files.get(*id).kind {
            FileKind::CaCert(info) => info.decodable && info.na > now,
            _ => false
        }
    });
    let mut keep_modules = accessed_modules.clone();
    let mut keep_repos = accessed_repos.clone();
    for point in state.store.values() {
        match point.rpki_notify.as_ref() {
            Some(notify) => { keep_repos.insert(notify.clone()); }
            None => { keep_modules.insert(module_of(&point.mft_uri)); }
        }
    }
    if rsync_on {
        state.rsync_copy.retain(|module, _| keep_modules.contains(module));
    }
    if rrdp_on {
        state.rrdp_copy.retain(|repo, _| keep_repos.contains(repo));
    }
}

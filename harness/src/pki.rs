//! Production of real RPKI objects from abstract descriptions.
//!
//! Keys come from a fixed pool of RSA keys generated once with the openssl
//! CLI (`/verif/fixtures/keys`). Signing is done with `ring`, RSA PKCS#1 v1.5
//! signatures are deterministic, so the same abstract object always compiles
//! to the same bytes.

use std::cell::Cell;
use std::net::{Ipv4Addr, Ipv6Addr};
use std::str::FromStr;
use std::sync::OnceLock;
use bytes::Bytes;
use chrono::{TimeZone, Utc};
use ring::signature::{RsaKeyPair, RSA_PKCS1_SHA256};
use rpki::crypto::{
    KeyIdentifier, PublicKey, PublicKeyFormat, Signature, SignatureAlgorithm,
    Signer, SigningError,
};
use rpki::crypto::signer::KeyError;
use rpki::dep::bcder::{Mode, Oid};
use rpki::dep::bcder::encode::Values;
use rpki::repository::aspa::AspaBuilder;
use rpki::repository::cert::{
    ExtendedKeyUsage, KeyUsage, Overclaim, TbsCert,
};
use rpki::repository::crl::{CrlEntry, TbsCertList};
use rpki::repository::manifest::{FileAndHash, ManifestContent};
use rpki::repository::resources::{Asn, Prefix};
use rpki::repository::roa::RoaBuilder;
use rpki::repository::sigobj::SignedObjectBuilder;
use rpki::repository::x509::{Serial, Time, Validity};
use rpki::uri;

pub const N_RSA: usize = 48;
pub const N_EC: usize = 8;

macro_rules! key_files {
    ($($n:literal),*) => {
        [$((
            include_bytes!(concat!(
                "../../fixtures/keys/rsa", $n, ".key.der"
            )).as_slice(),
            include_bytes!(concat!(
                "../../fixtures/keys/rsa", $n, ".pub.der"
            )).as_slice(),
        )),*]
    }
}

static RSA_FILES: [(&[u8], &[u8]); N_RSA] = key_files!(
    "00", "01", "02", "03", "04", "05", "06", "07", "08", "09", "10", "11",
    "12", "13", "14", "15", "16", "17", "18", "19", "20", "21", "22", "23",
    "24", "25", "26", "27", "28", "29", "30", "31", "32", "33", "34", "35",
    "36", "37", "38", "39", "40", "41", "42", "43", "44", "45", "46", "47"
);

static EC_FILES: [&[u8]; N_EC] = [
    include_bytes!("../../fixtures/keys/ec0.pub.der"),
    include_bytes!("../../fixtures/keys/ec1.pub.der"),
    include_bytes!("../../fixtures/keys/ec2.pub.der"),
    include_bytes!("../../fixtures/keys/ec3.pub.der"),
    include_bytes!("../../fixtures/keys/ec4.pub.der"),
    include_bytes!("../../fixtures/keys/ec5.pub.der"),
    include_bytes!("../../fixtures/keys/ec6.pub.der"),
    include_bytes!("../../fixtures/keys/ec7.pub.der"),
];

pub struct PoolKey {
    pair: RsaKeyPair,
    public: PublicKey,
}

pub struct Pool {
    rsa: Vec<PoolKey>,
    ec: Vec<PublicKey>,
}

pub fn pool() -> &'static Pool {
    static POOL: OnceLock<Pool> = OnceLock::new();
    POOL.get_or_init(|| {
        Pool {
            rsa: RSA_FILES.iter().map(|(key, public)| {
                PoolKey {
                    pair: RsaKeyPair::from_der(key).expect("bad fixture key"),
                    public: PublicKey::decode(*public).expect("bad fixture pub"),
                }
            }).collect(),
            ec: EC_FILES.iter().map(|public| {
                PublicKey::decode(*public).expect("bad fixture ec pub")
            }).collect(),
        }
    })
}

impl Pool {
    pub fn rsa_pub(&self, idx: usize) -> &PublicKey {
        &self.rsa[idx % N_RSA].public
    }

    pub fn ec_pub(&self, idx: usize) -> &PublicKey {
        &self.ec[idx % N_EC]
    }

    pub fn sign_raw(&self, idx: usize, data: &[u8]) -> Vec<u8> {
        let key = &self.rsa[idx % N_RSA].pair;
        let mut sig = vec![0u8; key.public().modulus_len()];
        // The "random" is only used for blinding; the signature itself is
        // deterministic.
        let rng = ring::rand::SystemRandom::new();
        key.sign(&RSA_PKCS1_SHA256, &rng, data, &mut sig)
            .expect("signing failed");
        sig
    }
}


//------------ SimSigner -----------------------------------------------------

/// Identifies a key for signing: the key the signature is really made with
/// and the key the signer claims it is.
#[derive(Clone, Copy, Debug, PartialEq, Eq)]
pub struct KeyRef {
    pub sign_with: usize,
    pub claim: usize,
}

impl KeyRef {
    pub fn good(idx: usize) -> Self {
        KeyRef { sign_with: idx, claim: idx }
    }
}

/// A signer over the key pool.
pub struct SimSigner {
    /// The key used for the next `sign_one_off` call.
    pub one_off: Cell<KeyRef>,
}

impl SimSigner {
    pub fn new() -> Self {
        SimSigner { one_off: Cell::new(KeyRef::good(0)) }
    }
}

#[derive(Debug)]
pub struct SimSignerError;

impl std::fmt::Display for SimSignerError {
    fn fmt(&self, f: &mut std::fmt::Formatter) -> std::fmt::Result {
        f.write_str("sim signer error")
    }
}

impl Signer for SimSigner {
    type KeyId = KeyRef;
    type Error = SimSignerError;

    fn create_key(
        &self, _algorithm: PublicKeyFormat
    ) -> Result<Self::KeyId, Self::Error> {
        Err(SimSignerError)
    }

    fn get_key_info(
        &self, key: &Self::KeyId
    ) -> Result<PublicKey, KeyError<Self::Error>> {
        Ok(pool().rsa_pub(key.claim).clone())
    }

    fn destroy_key(
        &self, _key: &Self::KeyId
    ) -> Result<(), KeyError<Self::Error>> {
        Ok(())
    }

    fn sign<Alg: SignatureAlgorithm, D: AsRef<[u8]> + ?Sized>(
        &self, key: &Self::KeyId, algorithm: Alg, data: &D
    ) -> Result<Signature<Alg>, SigningError<Self::Error>> {
        Ok(Signature::new(
            algorithm,
            Bytes::from(pool().sign_raw(key.sign_with, data.as_ref()))
        ))
    }

    fn sign_one_off<Alg: SignatureAlgorithm, D: AsRef<[u8]> + ?Sized>(
        &self, algorithm: Alg, data: &D
    ) -> Result<(Signature<Alg>, PublicKey), Self::Error> {
        let key = self.one_off.get();
        Ok((
            Signature::new(
                algorithm,
                Bytes::from(pool().sign_raw(key.sign_with, data.as_ref()))
            ),
            pool().rsa_pub(key.claim).clone()
        ))
    }

    fn rand(&self, target: &mut [u8]) -> Result<(), Self::Error> {
        for b in target.iter_mut() { *b = 0x5a }
        Ok(())
    }
}


//------------ Abstract resources -------------------------------------------

#[derive(Clone, Copy, Debug, PartialEq, Eq, PartialOrd, Ord, Hash)]
pub struct P4 { pub addr: u32, pub len: u8 }

#[derive(Clone, Copy, Debug, PartialEq, Eq, PartialOrd, Ord, Hash)]
pub struct P6 { pub addr: u128, pub len: u8 }

impl P4 {
    pub fn new(addr: u32, len: u8) -> Self {
        let mask = if len == 0 { 0 } else { u32::MAX << (32 - len) };
        P4 { addr: addr & mask, len }
    }
    pub fn first(self) -> u32 { self.addr }
    pub fn last(self) -> u32 {
        if self.len == 0 { u32::MAX }
        else { self.addr | !(u32::MAX << (32 - self.len)) }
    }
    pub fn covers(self, other: P4) -> bool {
        self.len <= other.len && self.first() <= other.first()
            && other.last() <= self.last()
    }
    pub fn overlaps(self, other: P4) -> bool {
        self.first() <= other.last() && other.first() <= self.last()
    }
    pub fn to_rpki(self) -> Prefix {
        Prefix::new(Ipv4Addr::from(self.addr), self.len)
    }
}

impl P6 {
    pub fn new(addr: u128, len: u8) -> Self {
        let mask = if len == 0 { 0 } else { u128::MAX << (128 - len) };
        P6 { addr: addr & mask, len }
    }
    pub fn first(self) -> u128 { self.addr }
    pub fn last(self) -> u128 {
        if self.len == 0 { u128::MAX }
        else { self.addr | !(u128::MAX << (128 - self.len)) }
    }
    pub fn covers(self, other: P6) -> bool {
        self.len <= other.len && self.first() <= other.first()
            && other.last() <= self.last()
    }
    pub fn overlaps(self, other: P6) -> bool {
        self.first() <= other.last() && other.first() <= self.last()
    }
    pub fn to_rpki(self) -> Prefix {
        Prefix::new(Ipv6Addr::from(self.addr), self.len)
    }
}

impl std::fmt::Display for P4 {
    fn fmt(&self, f: &mut std::fmt::Formatter) -> std::fmt::Result {
        write!(f, "{}/{}", Ipv4Addr::from(self.addr), self.len)
    }
}

impl std::fmt::Display for P6 {
    fn fmt(&self, f: &mut std::fmt::Formatter) -> std::fmt::Result {
        write!(f, "{}/{}", Ipv6Addr::from(self.addr), self.len)
    }
}

/// Resources of a certificate.
#[derive(Clone, Debug, Default, PartialEq, Eq)]
pub struct Res {
    pub v4: Vec<P4>,
    pub v6: Vec<P6>,
    /// Inclusive ASN ranges.
    pub asn: Vec<(u32, u32)>,
}

impl Res {
    pub fn all() -> Self {
        Res {
            v4: vec![P4::new(0, 0)],
            v6: vec![P6::new(0, 0)],
            asn: vec![(0, u32::MAX)],
        }
    }

    pub fn covers_v4(&self, p: P4) -> bool {
        self.v4.iter().any(|own| own.covers(p))
    }

    pub fn covers_v6(&self, p: P6) -> bool {
        self.v6.iter().any(|own| own.covers(p))
    }

    pub fn covers_asn(&self, lo: u32, hi: u32) -> bool {
        self.asn.iter().any(|&(a, b)| a <= lo && hi <= b)
    }

    /// Is `other` entirely contained in `self`?
    ///
    /// Exact for the shapes the generator produces (each of `other`'s items
    /// is covered by a single item of `self` or not at all).
    pub fn contains(&self, other: &Res) -> bool {
        other.v4.iter().all(|p| self.covers_v4(*p))
        && other.v6.iter().all(|p| self.covers_v6(*p))
        && other.asn.iter().all(|&(a, b)| self.covers_asn(a, b))
    }

    pub fn is_empty(&self) -> bool {
        self.v4.is_empty() && self.v6.is_empty() && self.asn.is_empty()
    }
}


//------------ Time helpers --------------------------------------------------

pub fn time(secs: i64) -> Time {
    Time::from(Utc.timestamp_opt(secs, 0).single().expect("bad time"))
}

pub fn validity(not_before: i64, not_after: i64) -> Validity {
    Validity::new(time(not_before), time(not_after))
}

pub fn rsync_uri(s: &str) -> uri::Rsync {
    uri::Rsync::from_str(s).unwrap_or_else(|_| panic!("bad rsync uri {s}"))
}

pub fn https_uri(s: &str) -> uri::Https {
    uri::Https::from_str(s).unwrap_or_else(|_| panic!("bad https uri {s}"))
}


//------------ Object builders ----------------------------------------------

/// Everything needed to issue a CA certificate.
#[derive(Clone, Debug)]
pub struct CaCertSpec {
    pub serial: u64,
    /// Key of the subject.
    pub subject_key: usize,
    /// Key signing the certificate (the issuer's key, or the subject's for a
    /// trust anchor).
    pub issuer: KeyRef,
    pub is_ta: bool,
    pub not_before: i64,
    pub not_after: i64,
    pub res: Res,
    pub inherit: bool,
    pub overclaim_trim: bool,
    pub ca_repository: String,
    pub rpki_manifest: String,
    pub rpki_notify: Option<String>,
    /// URI of the issuer's certificate (ignored for TA).
    pub ca_issuer: String,
    /// URI of the issuer's CRL (ignored for TA).
    pub crl_uri: String,
    /// Use one and the same name as issuer and subject name (names play no
    /// role in RPKI validation; only key identifiers do).
    pub same_name: bool,
}

fn set_res(cert: &mut TbsCert, res: &Res, inherit: bool) {
    if inherit {
        cert.set_v4_resources_inherit();
        cert.set_v6_resources_inherit();
        cert.set_as_resources_inherit();
        return
    }
    if !res.v4.is_empty() {
        cert.build_v4_resource_blocks(|b| {
            for p in &res.v4 { b.push(p.to_rpki()) }
        });
    }
    if !res.v6.is_empty() {
        cert.build_v6_resource_blocks(|b| {
            for p in &res.v6 { b.push(p.to_rpki()) }
        });
    }
    if !res.asn.is_empty() {
        cert.build_as_resource_blocks(|b| {
            for &(lo, hi) in &res.asn {
                b.push((Asn::from(lo), Asn::from(hi)))
            }
        });
    }
}

pub fn make_ca_cert(spec: &CaCertSpec) -> Bytes {
    let signer = SimSigner::new();
    let pubkey = pool().rsa_pub(spec.subject_key).clone();
    let issuer_pub = pool().rsa_pub(spec.issuer.claim).clone();
    let (issuer_name, subject_name) = if spec.same_name {
        let name = pool().rsa_pub(0).to_subject_name();
        (name.clone(), Some(name))
    } else { (issuer_pub.to_subject_name(), None) };
    let mut cert = TbsCert::new(
        Serial::from(spec.serial),
        issuer_name,
        validity(spec.not_before, spec.not_after),
        subject_name,
        pubkey,
        KeyUsage::Ca,
        if spec.overclaim_trim { Overclaim::Trim } else { Overclaim::Refuse },
    );
    cert.set_basic_ca(Some(true));
    cert.set_ca_repository(Some(rsync_uri(&spec.ca_repository)));
    cert.set_rpki_manifest(Some(rsync_uri(&spec.rpki_manifest)));
    if let Some(notify) = spec.rpki_notify.as_ref() {
        cert.set_rpki_notify(Some(https_uri(notify)));
    }
    if !spec.is_ta {
        cert.set_authority_key_identifier(Some(issuer_pub.key_identifier()));
        cert.set_ca_issuer(Some(rsync_uri(&spec.ca_issuer)));
        cert.set_crl_uri(Some(rsync_uri(&spec.crl_uri)));
    }
    set_res(&mut cert, &spec.res, spec.inherit);
    let cert = cert.into_cert(&signer, &spec.issuer).expect("sign cert");
    cert.to_captured().into_bytes()
}

/// Common data of the EE certificate of a signed object.
#[derive(Clone, Debug)]
pub struct EeSpec {
    pub serial: u64,
    pub not_before: i64,
    pub not_after: i64,
    /// The issuing CA's key (possibly a lying one).
    pub issuer: KeyRef,
    /// The one-off key of the EE certificate / CMS signature.
    pub ee_key: KeyRef,
    pub crl_uri: String,
    pub ca_issuer: String,
    pub signed_object: String,
    pub signing_time: i64,
}

fn sigobj_builder(ee: &EeSpec) -> SignedObjectBuilder {
    let mut res = SignedObjectBuilder::new(
        Serial::from(ee.serial),
        validity(ee.not_before, ee.not_after),
        rsync_uri(&ee.crl_uri),
        rsync_uri(&ee.ca_issuer),
        rsync_uri(&ee.signed_object),
    );
    res.set_signing_time(time(ee.signing_time));
    res
}

pub fn make_roa(
    ee: &EeSpec, asn: u32, v4: &[(P4, Option<u8>)], v6: &[(P6, Option<u8>)],
) -> Bytes {
    let signer = SimSigner::new();
    signer.one_off.set(ee.ee_key);
    let mut roa = RoaBuilder::new(Asn::from(asn));
    for (p, max) in v4 {
        roa.push_v4_addr(Ipv4Addr::from(p.addr), p.len, *max);
    }
    for (p, max) in v6 {
        roa.push_v6_addr(Ipv6Addr::from(p.addr), p.len, *max);
    }
    let roa = roa.finalize(sigobj_builder(ee), &signer, &ee.issuer)
        .expect("sign roa");
    roa.to_captured().into_bytes()
}

pub fn make_aspa(ee: &EeSpec, customer: u32, providers: &[u32]) -> Bytes {
    let signer = SimSigner::new();
    signer.one_off.set(ee.ee_key);
    let mut providers: Vec<Asn> = providers.iter().map(|x| {
        Asn::from(*x)
    }).collect();
    providers.sort();
    providers.dedup();
    let aspa = AspaBuilder::new(Asn::from(customer), providers)
        .expect("aspa builder");
    let aspa = aspa.finalize(sigobj_builder(ee), &signer, &ee.issuer)
        .expect("sign aspa");
    aspa.to_captured().into_bytes()
}

/// A signed object with arbitrary content type (used for GBR-like files).
pub fn make_gbr(ee: &EeSpec, content: &[u8]) -> Bytes {
    let signer = SimSigner::new();
    signer.one_off.set(ee.ee_key);
    let mut builder = sigobj_builder(ee);
    builder.set_v4_resources_inherit();
    builder.set_v6_resources_inherit();
    builder.set_as_resources_inherit();
    let obj = builder.finalize(
        Oid(Bytes::from_static(&[42, 134, 72, 134, 247, 13, 1, 9, 16, 1, 35])),
        Bytes::copy_from_slice(content),
        &signer, &ee.issuer,
    ).expect("sign gbr");
    let captured = obj.encode_ref().to_captured(Mode::Der);
    captured.into_bytes()
}

pub fn make_manifest(
    ee: &EeSpec, number: u64, this_update: i64, next_update: i64,
    files: &[(Vec<u8>, Vec<u8>)],
) -> Bytes {
    let signer = SimSigner::new();
    signer.one_off.set(ee.ee_key);
    let items: Vec<FileAndHash<Bytes, Bytes>> = files.iter().map(
        |(name, hash)| {
            FileAndHash::new(
                Bytes::copy_from_slice(name), Bytes::copy_from_slice(hash)
            )
        }
    ).collect();
    let content = ManifestContent::new(
        Serial::from(number), time(this_update), time(next_update),
        rpki::crypto::DigestAlgorithm::default(),
        items.iter(),
    );
    let mft = content.into_manifest(sigobj_builder(ee), &signer, &ee.issuer)
        .expect("sign manifest");
    mft.to_captured().into_bytes()
}

pub fn make_crl(
    issuer: KeyRef, number: u64, this_update: i64, next_update: i64,
    revoked: &[u64],
) -> Bytes {
    let signer = SimSigner::new();
    let issuer_pub = pool().rsa_pub(issuer.claim).clone();
    let entries: Vec<CrlEntry> = revoked.iter().map(|serial| {
        CrlEntry::new(Serial::from(*serial), time(this_update))
    }).collect();
    let crl = TbsCertList::new(
        Default::default(),
        issuer_pub.to_subject_name(),
        time(this_update), time(next_update),
        entries,
        issuer_pub.key_identifier(),
        Serial::from(number),
    );
    crl.into_crl(&signer, &issuer).expect("sign crl")
        .to_captured().into_bytes()
}

/// Router certificate spec.
#[derive(Clone, Debug)]
pub struct RouterCertSpec {
    pub serial: u64,
    pub not_before: i64,
    pub not_after: i64,
    pub issuer: KeyRef,
    pub ec_key: usize,
    pub asns: Vec<u32>,
    pub crl_uri: String,
    pub ca_issuer: String,
}

pub fn make_router_cert(spec: &RouterCertSpec) -> Bytes {
    let signer = SimSigner::new();
    let pubkey = pool().ec_pub(spec.ec_key).clone();
    let issuer_pub = pool().rsa_pub(spec.issuer.claim).clone();
    let mut cert = TbsCert::new(
        Serial::from(spec.serial),
        issuer_pub.to_subject_name(),
        validity(spec.not_before, spec.not_after),
        None,
        pubkey,
        KeyUsage::Ee,
        Overclaim::Refuse,
    );
    cert.set_authority_key_identifier(Some(issuer_pub.key_identifier()));
    cert.set_ca_issuer(Some(rsync_uri(&spec.ca_issuer)));
    cert.set_crl_uri(Some(rsync_uri(&spec.crl_uri)));
    cert.set_extended_key_usage(Some(ExtendedKeyUsage::create_router()));
    cert.build_as_resource_blocks(|b| {
        for asn in &spec.asns {
            b.push((Asn::from(*asn), Asn::from(*asn)))
        }
    });
    cert.into_cert(&signer, &spec.issuer).expect("sign router cert")
        .to_captured().into_bytes()
}

pub fn sha256(data: &[u8]) -> Vec<u8> {
    ring::digest::digest(&ring::digest::SHA256, data).as_ref().to_vec()
}

pub fn key_id(idx: usize) -> KeyIdentifier {
    pool().rsa_pub(idx).key_identifier()
}

/// The text of a TAL for the given URIs and key.
pub fn make_tal(uris: &[String], key: usize) -> String {
    use std::fmt::Write;
    let mut res = String::new();
    for uri in uris {
        writeln!(res, "{uri}").unwrap();
    }
    res.push('\n');
    let der = pool().rsa_pub(key).to_info_bytes();
    let b64 = base64_encode(&der);
    for chunk in b64.as_bytes().chunks(64) {
        res.push_str(std::str::from_utf8(chunk).unwrap());
        res.push('\n');
    }
    res
}

pub fn base64_encode(data: &[u8]) -> String {
    const TABLE: &[u8; 64] =
        b"ABCDEFGHIJKLMNOPQRSTUVWXYZabcdefghijklmnopqrstuvwxyz0123456789+/";
    let mut res = String::new();
    for chunk in data.chunks(3) {
        let b = [
            chunk[0],
            if chunk.len() > 1 { chunk[1] } else { 0 },
            if chunk.len() > 2 { chunk[2] } else { 0 },
        ];
        res.push(TABLE[(b[0] >> 2) as usize] as char);
        res.push(TABLE[(((b[0] & 3) << 4) | (b[1] >> 4)) as usize] as char);
        if chunk.len() > 1 {
            res.push(TABLE[(((b[1] & 15) << 2) | (b[2] >> 6)) as usize] as char);
        }
        else { res.push('=') }
        if chunk.len() > 2 {
            res.push(TABLE[(b[2] & 63) as usize] as char);
        }
        else { res.push('=') }
    }
    res
}

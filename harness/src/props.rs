//! Which engine and profile decides which property.

use crate::enga::{OpKind, Profile};
use crate::model::Policy;

#[derive(Clone, Copy, Debug, PartialEq, Eq)]
pub enum Tier { Quick, Thorough }

/// Number of runs for a property and tier.
pub fn runs(property: &str, tier: Tier) -> u64 {
    if property == "C32" {
        return crate::engf::n_cases(tier == Tier::Thorough)
    }
    if property == "C29" {
        return crate::engb::c29_cells().len() as u64
    }
    let (quick, thorough) = match property {
        "C01" | "C02" | "C03" | "C04" | "C05" | "C06" | "C08" | "C09"
        | "C10" | "C39" | "C31" | "C22" | "C34" => (480, 6000),
        "C40" => (320, 4000),
        "C41" => (480, 6000),
        "C27" => (192, 1500),
        "C38" => (800, 10000),
        "C07" => (320, 4000),
        "C12" | "C13" | "C14" => (2400, 50000),
        "C33" => (4000, 100000),
        "C15" | "C16" | "C17" | "C36" => (4000, 100000),
        "C37" => (1600, 20000),
        "C26" => (960, 20000),
        "C25" => (2400, 100000),
        "C24" => (640, 8000),
        "C23" => (192, 800),
        "C19" => (320, 8000),
        _ => (160, 3000),
    };
    match tier { Tier::Quick => quick, Tier::Thorough => thorough }
}

fn only(profile: &mut Profile, kinds: &[(OpKind, u64)]) {
    profile.weights = kinds.to_vec();
}

pub fn enga_profile(property: &str, tier: Tier) -> Option<Profile> {
    use OpKind::*;
    let mut p = Profile::base(property);
    if tier == Tier::Thorough {
        p.steps = 6;
    }
    match property {
        "C01" | "C02" | "C04" => { }
        "C39" => {
            // Half of the runs look at the snapshot the server serves after
            // its update cycle (what clients and the scheduler see).
            p.via_server_pct = 50;
        }
        "C03" => {
            only(&mut p, &[
                (AddObj, 10), (RemoveObj, 3), (Touch, 3), (Revoke, 2),
                (HashMismatch, 8), (MissingFile, 8), (IllegalName, 3),
                (RsyncFail, 1), (RrdpFail, 1), (AddChild, 2),
            ]);
            p.ops_per_step = 4;
            p.big_jumps = false;
        }
        "C05" => {
            only(&mut p, &[
                (AddObj, 8), (RemoveObj, 3), (Touch, 6), (Replay, 10),
                (NotNewer, 10), (RsyncFail, 1), (RrdpFail, 1),
            ]);
            p.focus = Some("C05");
            p.steps = if tier == Tier::Thorough { 8 } else { 5 };
        }
        "C06" => {
            only(&mut p, &[
                (AddObj, 6), (Touch, 6), (MftStale, 8), (MftPremature, 8),
                (CrlStale, 6), (RsyncFail, 2), (RrdpFail, 2), (AddChild, 2),
            ]);
            p.focus = Some("C06");
        }
        "C07" => {
            only(&mut p, &[
                (AddObj, 4), (Touch, 3), (CycleCert, 10), (AddChild, 6),
            ]);
            p.gen.chain = true;
            p.gen.same_names_pct = 35;
            p.gen.max_depth = 6;
            p.gen.max_cas = 9;
            p.gen.max_tals = 1;
            p.depths = vec![1, 2, 3, 5, 32];
            p.focus = Some("C07");
            p.big_jumps = false;
        }
        "C08" => {
            only(&mut p, &[
                (AddObj, 8), (Touch, 3), (MftWrongKey, 5), (MftGarbage, 4),
                (CrlMissing, 4), (CrlWrongKey, 3), (MftStale, 3),
                (ExpireMftEe, 2), (AddChild, 2),
            ]);
            p.gen.ta_all_pct = 100;
            p.gen.wide_children = true;
            p.gen.max_depth = 1;
            p.gen.max_cas = 10;
            p.gen.max_tals = 3;
            p.gen.max_objs = 5;
            p.ops_per_step = 5;
            p.stale = Some(Policy::Reject);
            p.big_jumps = false;
        }
        "C09" => {
            only(&mut p, &[
                (AddObj, 12), (RemoveObj, 4), (Touch, 3), (Revoke, 3),
                (SigFaultObj, 2), (AddChild, 3), (MftWrongKey, 2),
                (BigAspa, 2), (AspaChange, 2),
            ]);
            p.slurm = true;
            p.gen.ta_all_pct = 60;
            p.gen.max_objs = 6;
            p.focus = Some("C09");
            p.big_jumps = false;
        }
        "C10" => {
            only(&mut p, &[
                (AddObj, 5), (Touch, 4), (TaFault, 14), (TalRekey, 4), (RsyncFail, 2),
                (RrdpFail, 1),
            ]);
            p.focus = Some("C10");
            p.gen.max_tals = 3;
            p.gen.max_cas = 6;
        }
        "C31" => {
            only(&mut p, &[
                (AddObj, 8), (Touch, 4), (AddChild, 8), (RsyncFail, 2),
                (RrdpFail, 2),
            ]);
            p.gen.dubious_pct = 35;
            p.gen.shared_repos = false;
            p.allow_dubious_pct = 45;
            p.big_jumps = false;
            p.steps = 4;
        }
        "hist-aspa" => {
            only(&mut p, &[
                (AspaChange, 14), (AddObj, 4), (RemoveObj, 3), (Touch, 3),
                (RsyncFail, 1),
            ]);
            p.via_server = true;
            p.random_cfg = false;
            p.gen.max_tals = 1;
            p.gen.max_cas = 3;
            p.big_jumps = false;
            p.quiet_pct = 10;
            p.steps = if tier == Tier::Thorough { 14 } else { 8 };
        }
        "C41" => {
            // A mostly healthy history so that both the affected subtree
            // and the rest have payload when the fault is placed.
            only(&mut p, &[
                (AddObj, 10), (RemoveObj, 2), (Touch, 4), (AddChild, 6),
                (AspaChange, 2), (SigFaultObj, 1), (MissingFile, 1),
                (MftStale, 1), (RsyncFail, 1), (RrdpFail, 1), (MoveCa, 1),
            ]);
            p.differential = true;
            p.big_jumps = false;
            p.gen.shared_repos = tier == Tier::Thorough;
            p.steps = if tier == Tier::Thorough { 3 } else { 2 };
        }
        "C27" => {
            only(&mut p, &[
                (AddObj, 10), (RemoveObj, 6), (Touch, 4), (AddChild, 4),
                (AspaChange, 3), (RsyncFail, 2), (RrdpFail, 2), (TaFault, 1),
                (MftStale, 1), (BigAspa, 1),
            ]);
            p.gen.rrdp_pct = 80;
            p.corrupt_local = true;
            p.corrupt_rounds = if tier == Tier::Thorough { 12 } else { 5 };
            p.big_jumps = false;
            p.steps = 3;
        }
        "store-fault" => {
            only(&mut p, &[
                (AddObj, 8), (RemoveObj, 3), (Touch, 5), (AddChild, 4),
                (RsyncFail, 2), (RrdpFail, 2), (AspaChange, 2), (TaFault, 1),
            ]);
            p.via_server = true;
            p.store_fault = true;
            p.big_jumps = false;
            p.quiet_pct = 0;
            p.steps = if tier == Tier::Thorough { 3 } else { 2 };
        }
        "C40" => {
            only(&mut p, &[
                (AddObj, 6), (RemoveObj, 2), (Touch, 6), (DropChild, 4),
                (AddChild, 4), (MoveCa, 6), (RsyncFail, 3), (RrdpFail, 3),
                (ExpireMftEe, 2), (MftStale, 2), (CorruptArchive, 3),
                (TaFault, 1),
            ]);
            p.check_cleanup = true;
            p.gen.shared_repos = false;
            p.steps = if tier == Tier::Thorough { 7 } else { 5 };
        }
        "C22" => {
            only(&mut p, &[
                (AddObj, 5), (Touch, 4), (RsyncFail, 8), (RrdpFail, 8),
                (MftGarbage, 3), (CrlMissing, 3), (HashMismatch, 3),
                (SigFaultObj, 3), (TaFault, 3), (AddChild, 2),
            ]);
            p.via_server = true;
            p.hostile_labels = true;
            p.steps = 3;
        }
        "C34" => {
            only(&mut p, &[
                (AddObj, 8), (Touch, 6), (TimeFaultObj, 2), (RemoveObj, 3),
                (AddChild, 2), (RsyncFail, 1),
            ]);
            p.via_server = true;
            p.refresh_swarm = true;
            p.steps = 4;
        }
        "C38" => {
            only(&mut p, &[(AddObj, 8), (Touch, 2), (AddChild, 4)]);
            p.steps = 1;
            p.size_limits = true;
            p.gen.rrdp_pct = 70;
            p.focus = Some("C38");
        }
        _ => return None
    }
    Some(p)
}


/// Describes the check of a property for the evidence file.
pub fn describe(property: &str) -> Option<serde_json::Value> {
    use serde_json::json;
    if enga_profile(property, Tier::Quick).is_some() {
        let what = match property {
            "C01" => "every served item must trace to a ground-truth object \
                      valid along its whole chain (or a SLURM assertion)",
            "C02" => "every item of the model's expected set must be served",
            "C03" => "no item that only exists in a fetched version whose \
                      update was abandoned may be served",
            "C04" => "after every run every stored point file read back with \
                      StoredPoint::load_quietly equals, byte for byte, the \
                      version the model says is stored",
            "C05" => "stored manifest number and thisUpdate strictly increase \
                      whenever the stored manifest changes; payload follows \
                      the stored version",
            "C06" => "payload equals the model under the stale policy and \
                      premature rule, fetch path and stored path",
            "C07" => "runs terminate; nothing beyond max-ca-depth or from \
                      loop certificates contributes, everything else does",
            "C08" => "under reject no served VRP overlaps rejected CA \
                      resources; otherwise nothing is removed",
            "C09" => "served set equals the documented composition exactly, \
                      each item once",
            "C10" => "payload under a TAL iff a matching valid TA certificate \
                      (fresh or stored) exists; stored TA never replaced by \
                      undecodable bytes",
            "C22" => "after every update cycle of the server (real \
                      process_once) with hostile text in rsync output, RRDP \
                      failures and TAL labels (quotes, backslashes, tabs, \
                      newlines, ESC, NUL, non-ASCII), /api/v1/status parses \
                      as JSON and /metrics satisfies the Prometheus text \
                      exposition grammar",
            "C34" => "after every successful update cycle at simulated time \
                      t, refresh_wait() lies in [min-refresh or refresh, \
                      max(refresh, min-refresh)] and equals max(expiry - t, \
                      min-refresh) when min-refresh is set and the data set \
                      expires before t + refresh; refresh in {1,10,600,86400}, \
                      min-refresh in {unset,1,60,600,7200}",
            "C27" => "after a generated world history the files of the local \
                      cache (stored publication points, store status, stored \
                      TA certificates, RRDP archives incl. their state \
                      record, occasionally rsync copies) are corrupted \
                      (truncation, bit flips, huge or odd values in length-\
                      like fields, random replacement, zero/0xff runs, \
                      appended garbage, zero-filled tail) in several rounds \
                      per world; after each round two real validation runs \
                      execute in a forked child whose address space is \
                      limited to the process size plus 1 GiB: each must end \
                      with a result or a reported failure, never with a \
                      panic, a signal (abort, allocation failure) or a hang",
            "C41" => "differential pair: after a generated world history the \
                      last run is executed twice from the same cache, without \
                      and with a fault in one repository (unreachable over \
                      RRDP and/or rsync, corrupt local archive, bad objects, \
                      manifests or CRLs, stale or premature manifests); every \
                      difference between the two results must be payload \
                      that some CA of that repository or a descendant ever \
                      published (or, under reject, a VRP overlapping their \
                      resources); the run with the fault must not fail",
            "C40" => "directory tree before/after every successful run: no \
                      stored point with an unexpired manifest certificate \
                      removed; no rsync module / RRDP archive removed that a \
                      retained point or this run uses; with dirty nothing \
                      removed; after a (provoked) failed run nothing \
                      removed; an offline run on what is left yields the \
                      model's payload",
            "C31" => "transport log invariant: with allow-dubious-hosts off \
                      no fake-rsync invocation and no simulated HTTPS request \
                      targets localhost, an IP literal or an explicit port \
                      (names compared case-insensitively); with it on they \
                      do happen (probe)",
            "C38" => "object size limit drawn around the real sizes of the \
                      TA certificates and largest RRDP objects (L-1, L, L+1, \
                      disabled, default), responses with and without \
                      Content-Length and with small chunks: payload equals \
                      the model (object used iff size <= L or limit disabled)",
            "C39" => "snapshot refresh time is not later than the earliest \
                      expiry on the chain of any contributing object",
            _ => "payload equals the reference model",
        };
        return Some(json!({
            "engine": "A (world): real Engine/Store/Collector/ValidationReport \
                       against generated repositories",
            "level": "exploration",
            "rule": format!(
                "Each run: seeded world (1-3 TALs, CA tree, ROAs/ASPAs/router \
                 certs compiled to real signed objects), a history of steps \
                 with seeded mutations, object/manifest/CRL/transport/TA \
                 faults and clock movement, one real validation run per step \
                 on a persistent cache; oracle: {what}. A run is non-trivial \
                 if at least one generated operation was applied; distinct = \
                 distinct (fault-kind set, world size, per-step outcome \
                 vector new/stored/rejected/served-count) signatures."
            ),
            "assumptions": [
                "reference model evaluates the generator's ground truth per \
                 RFC 6487/9286 rules as documented in DESIGN.md appendix A",
                "transport stubs: fake rsync executable, simulated HTTPS",
                "validation_threads = 1 (schedules are explored separately)",
            ],
        }))
    }
    if matches!(property, "C15" | "C16" | "C17" | "C36" | "C37") {
        let what = match property {
            "C15" => "one updater performing two real update cycles against \
                      1-2 readers issuing full(), diff(), /json-delta and \
                      /json (bodies consumed chunk by chunk): every response \
                      pairs its serial (state, JSON field, ETag) with exactly \
                      that serial's data; nothing served before the first run",
            "C16" => "an updater installing new data while 1-2 clients send \
                      conditional /json requests with the previous version's \
                      ETag / Last-Modified (same-second and later clock): a \
                      304 must carry the ETag of the version the validators \
                      were issued for",
            "C17" => "a /json-delta/notify long-poll for the current version \
                      racing a data-changing update cycle: the request must \
                      complete with the new serial; a lost notification shows \
                      as all tasks blocked",
            "C36" => "2-4 tasks registering overlapping and new client \
                      addresses: list sorted and duplicate-free, per-address \
                      and global open-connection counts exact, zero after close",
            _ => "2-3 tasks requesting repositories for CAs in the same and \
                  different rsync modules / RRDP repositories from one \
                  collector run: every module/repository fetched at most \
                  once and its data readable when repository() returns",
        };
        return Some(json!({
            "engine": "D (conc): real code built with shuttle sync primitives, \
                       one seeded schedule (random or PCT depth 3) per run",
            "level": "exploration",
            "shrink": false,
            "rule": format!(
                "Each run executes the scenario under one schedule chosen by \
                 shuttle's seeded RandomScheduler or PctScheduler; lock \
                 operations, hook points and simulated transport calls are \
                 the scheduling points. Scenario: {what}. Non-trivial: every \
                 run (>= 2 tasks); distinct = distinct orders in which tasks \
                 passed their traced steps (hash of the trace)."
            ),
            "assumptions": [
                "sequentially consistent interleavings only (no weak memory)",
                "blocking work inside a task (file I/O, fake rsync child) is \
                 atomic from the scheduler's view",
            ],
        }))
    }
    if property == "C25" {
        return Some(json!({
            "engine": "B (rrdp): real Collector/rrdp::Run::load_repository \
                       and archive against a simulated RRDP server history",
            "level": "exploration",
            "rule": "Each run: one repository over an object universe of 8 \
                     URIs; per step the server publishes 1-3 serials, rotates \
                     the session, jumps the serial, prunes deltas or idles; \
                     the client (fresh Collector = restart) updates against \
                     the current or a lagging view with one of 23 faults \
                     (notification status/garbage/truncation/lying 304; \
                     snapshot status/hash/truncation/wrong serial/wrong \
                     session/duplicate object; delta status/hash/truncation/\
                     wrong serial/bad withdraw/bad replace/publish existing; \
                     delta list gap/duplicate/missing last/mutated hash; \
                     delta and snapshot both failing), random chunking and \
                     Content-Length presence, max-delta-count in {1,2,3,100}. \
                     Oracle (DESIGN appendix B): if repository() hands out an \
                     RRDP repository, the archive's recorded session/serial \
                     is the announced one (for 304: the last synced one) and \
                     its objects equal that version's server snapshot \
                     exactly. Non-trivial: >=1 fault or lagging view; \
                     distinct = (fault/server-op counts, outcome probes).",
            "assumptions": [
                "a view is self-consistent unless the injected fault says otherwise",
                "rsync disabled so that 'not updated' means no data is handed out",
            ],
        }))
    }
    if property == "C29" {
        return Some(json!({
            "engine": "B (collector level): real Collector::start().repository() \
                       with simulated RRDP server and fake rsync",
            "level": "fault_enumeration",
            "exhaustive": true,
            "shrink": false,
            "rule": "The full product fallback policy {never, stale, new} x \
                     RRDP outcome {updated, current, stale, unavailable} x \
                     rrdp {on, off} x rsync {on, off} x CA {with, without} \
                     rpkiNotify = 96 cells, each executed once. Outcomes are \
                     produced, not asserted: server fine; server failing \
                     (503) with a local copy made 10 s earlier (current) or \
                     10 days earlier (expired, simulated clock); server \
                     failing without a copy. Observed: whether the fake \
                     rsync was invoked for the CA's module and which kind of \
                     repository repository() hands out. Oracle: the table \
                     in the property. Every cell is distinct; non-trivial = \
                     all (each exercises the decision).",
            "assumptions": [
                "the copy's best-before lies in [refresh, max(2*refresh, \
                 fallback-time)) = [600 s, 3600 s): 10 s is before, 10 days after",
            ],
        }))
    }
    if property == "C19" {
        return Some(json!({
            "engine": "G (rtrnet): the real rtr_listener on loopback sockets \
                       in a current-thread tokio runtime",
            "level": "exploration",
            "rule": "Each run: 3-10 client connections from different \
                     127.0.0.x source addresses arrive one after the other; \
                     a seeded subset fails its per-connection setup (hook H9 \
                     makes the keepalive socket option fail), keepalive \
                     enabled or disabled, per-client metrics on or off; every \
                     client sends a Reset Query; the last connection is \
                     always a working probe. Oracle: every connection whose \
                     setup did not fail receives a Cache Response within 3 s \
                     of wall clock (only ever waited for when violated). \
                     Non-trivial: >=1 failed setup; distinct = (failure \
                     pattern, keepalive, metrics mode).",
            "assumptions": [
                "real loopback TCP: outcome-deterministic, timing is not; \
                 the bound is generous and elapses only on a violation",
            ],
        }))
    }
    if property == "C32" {
        return Some(json!({
            "engine": "F (cmd): the real vrps / validate / update / server \
                       commands as subprocesses (this binary in `routinator` \
                       mode = what src/main.rs does) with scripted run outcomes",
            "level": "fault_enumeration",
            "exhaustive": true,
            "shrink": false,
            "rule": "All sequences over {ok, retryable failure, fatal \
                     failure} of length 1..4 (server: 1..3 in quick) for \
                     each of the four commands; the outcome of every \
                     validation run is forced at the start of \
                     ValidationReport::process (hook H5, environment \
                     script), every started run is logged, the child exits \
                     with status 97 if it starts more runs than the script \
                     plus three. Oracle: one-shot commands start at most two \
                     runs, exit non-zero after the second retryable failure \
                     or a fatal one and zero after a success; the server \
                     retries at most once after its initial run and then \
                     shuts down with an error, and keeps running otherwise. \
                     Every case is distinct; non-trivial = contains a failure.",
            "assumptions": [
                "no TALs configured, so a non-forced run succeeds at once",
                "the server runs with refresh 1 s and no listeners; real \
                 time only passes while it waits between successful runs",
            ],
        }))
    }
    if property == "C23" {
        return Some(json!({
            "engine": "A (world) in crash mode: kill points in the store, \
                       status file, TA store, cleanup and RRDP archive writes",
            "level": "fault_enumeration",
            "rule": "Each run: a seeded world and two ordinary steps, then \
                     the third validation run is executed once per kill \
                     point from the same pre-run cache (all points in \
                     thorough, a seeded sample of 10 in quick); the cache \
                     directory copied at kill point k is the crash image. \
                     For every distinct image: (a) every stored point read \
                     with StoredPoint::load_quietly is absent, header-only, \
                     or byte-for-byte its previous or its new complete \
                     version per the model; (b) an offline run succeeds; (c) \
                     an online run yields exactly the data set of the \
                     uninterrupted run; (d) the store status is readable. \
                     Non-trivial: >= 1 image; distinct = (kill sites, \
                     fault kinds, outcome vector).",
            "assumptions": [
                "crash = process kill (page cache survives): directory copy \
                 at the kill point; no power-loss reordering",
                "buffered temp-file writes coincide (user-space buffers die \
                 with the process); tearing inside one write call is not modelled",
                "no transport faults during the interrupted run so that its \
                 result does not depend on which collector copy survives",
            ],
        }))
    }
    if property == "C24" {
        return Some(json!({
            "engine": "B (rrdp) in crash mode: kill points in archive writes, \
                       truncation and snapshot replacement",
            "level": "fault_enumeration",
            "rule": "Each run: a client synced to a server history, then one \
                     update (delta chain or snapshot, sometimes with a peer \
                     fault) is executed repeatedly from the same state, once \
                     per kill point (all in thorough, a seeded sample of 12 \
                     in quick): at kill point k the cache directory is copied \
                     aside -- what a process kill leaves behind. From every \
                     distinct image the client restarts and the history \
                     continues for 1-3 exchanges against the current view, \
                     the pre-crash view (mirror lag, 304) or a faulty view. \
                     Oracle: Engine B's (an update reported successful \
                     leaves the copy equal to the server snapshot at the \
                     recorded version). Non-trivial: >=1 image checked; \
                     distinct = (kill sites hit, fault kinds, outcome probes). \
                     Complete over the kill points of the interrupted update \
                     in thorough mode; histories are sampled.",
            "assumptions": [
                "crash = process kill: page cache survives, so a directory \
                 copy at the kill point is the crash image (no power loss, \
                 no reordering of writes)",
                "kill points sit before each archive write/truncate and \
                 around remove/rename; tearing inside one write call is not \
                 modelled",
            ],
        }))
    }
    if property == "C26" {
        return Some(json!({
            "engine": "E (archive): real utils::archive::Archive on tmpfs \
                       against a BTreeMap reference model",
            "level": "exploration",
            "rule": "Each run: seeded sequence of 5-120 publish / update / \
                     delete / fetch / fetch_if / reopen (read-only or \
                     writable) operations over a universe of 3, 6, 24 or 1500 \
                     names (the large universe forces hash-bucket \
                     collisions) with data sizes around the page size, the \
                     header size, free-space split boundaries and 64 kB; \
                     metadata checks that accept and refuse; after every \
                     operation verify() must succeed and results must equal \
                     the map model, objects() is compared with the model. \
                     Non-trivial: every run; distinct = (universe size, op \
                     counts, rare-outcome probes, final object count).",
            "assumptions": [
                "process restarts are modelled by dropping and reopening the \
                 archive (no crash in the middle of an operation here; see C24)",
            ],
        }))
    }
    if crate::engc::profile(property, false).is_some() {
        let what = match property {
            "C12" => "the action list served to a client lagging two or more \
                      versions (merged on demand from retained change sets) \
                      equals element for element the direct change set \
                      between the two data sets, and applying it yields the \
                      current data",
            "C13" => "every answer to (session, serial) through \
                      PayloadSource::diff and /json-delta is a refusal or an \
                      exact change set tagged with the current serial; \
                      current serial => empty; the last min(history-size, \
                      changes) serials must be served; never-issued serials \
                      (future, +/-2^31, foreign session) must be refused",
            "C14" => "serial after every run equals start + number of \
                      data-changing runs; retained change sets <= \
                      max(history-size, 1)",
            "C33" => "a forced failing run (retryable or fatal) leaves \
                      ready/session/serial/data/retained/ETag/Last-Modified/\
                      created unchanged and wakes no notify subscriber",
            _ => "history model",
        };
        return Some(json!({
            "engine": "C (history): real SharedHistory driven through \
                       Server::process_once, queried through PayloadSource \
                       and the real HTTP dispatcher",
            "level": "exploration",
            "rule": format!(
                "Each run: seeded history-size, start serial anywhere in the \
                 32-bit space (incl. around 2^31 and 2^32), a sequence of \
                 changing / non-changing / failing update cycles with the \
                 simulated clock moving (same second, forward, backward), \
                 and after each cycle a burst of client queries at every \
                 issued serial, evicted serials, current+1, +/-2^31 and \
                 random values; oracle: {what}. Non-trivial: at least one \
                 update cycle; distinct = (history-size, start-serial class, \
                 versions, changes, op-kind counts)."
            ),
            "assumptions": [
                "data sets consist of route origins and router keys supplied \
                 through local exception files (ASPA only via Engine A)",
                "single-threaded; interleavings are Engine D's subject",
            ],
        }))
    }
    None
}

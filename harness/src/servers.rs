//! Simulated peers: the rsync server (a directory tree served by the fake
//! rsync executable, which is this binary in another mode) and the HTTPS
//! server (an in-process route table behind the `verif::http` hook).

use std::collections::BTreeMap;
use std::fs;
use std::io::Write;
use std::path::{Path, PathBuf};
use std::sync::{Arc, Mutex};
use bytes::Bytes;

//------------ Fake rsync ----------------------------------------------------

/// How a module behaves when rsynced in the current step.
#[derive(Clone, Debug, PartialEq, Eq)]
pub enum RsyncMode {
    /// Transfer works.
    Ok,
    /// rsync exits with the given status without touching the destination.
    Fail(i32),
    /// Works but also prints the given text to stderr and stdout.
    Noisy,
}

/// Returns whether the process was invoked as the fake rsync.
pub fn is_fake_rsync_invocation(args: &[String]) -> bool {
    args.get(1).map(|s| s == "-h").unwrap_or(false)
        || args.iter().any(|arg| arg.starts_with("--sim-root="))
}

const HOSTILE: &[u8] = b"rsync: \"quoted\" back\\slash \ttab \x1b[31mred\x1b[0m \
    nul-\x00-byte del-\x7f \xc3\xa4\xf0\x9f\x92\xa9 {\"json\": [1,2]}\r\n\
    second line with \xff\xfe invalid utf8\n";

/// The fake rsync executable.
pub fn fake_rsync_main(args: &[String]) -> i32 {
    if args.get(1).map(|s| s == "-h").unwrap_or(false) {
        println!("fake rsync for simulation  --contimeout");
        return 0
    }
    let Some(root) = args.iter().find_map(|arg| {
        arg.strip_prefix("--sim-root=")
    }) else {
        return 2
    };
    let root = Path::new(root);
    // The last two arguments are source and destination.
    if args.len() < 3 {
        return 2
    }
    let source = &args[args.len() - 2];
    let dest = PathBuf::from(&args[args.len() - 1]);
    let Some(module) = source.strip_prefix("rsync://") else {
        eprintln!("fake rsync: bad source {source}");
        return 2
    };
    let module = module.trim_end_matches('/');

    // Log the invocation.
    if let Ok(mut log) = fs::OpenOptions::new().create(true).append(true)
        .open(root.join("log"))
    {
        let _ = writeln!(log, "{module}");
    }

    let ctl = fs::read_to_string(
        root.join("ctl").join(module.replace('/', "__"))
    ).unwrap_or_default();
    let mut mode = "ok";
    let mut code = 0;
    for line in ctl.lines() {
        if let Some(value) = line.strip_prefix("fail=") {
            mode = "fail";
            code = value.trim().parse().unwrap_or(10);
        }
        else if line.trim() == "noisy" {
            mode = "noisy";
        }
    }
    if mode == "fail" {
        eprintln!("rsync: failed to connect to {module}: Connection refused (111)");
        let _ = std::io::stderr().write_all(HOSTILE);
        return code
    }
    if mode == "noisy" {
        let _ = std::io::stderr().write_all(HOSTILE);
        let _ = std::io::stdout().write_all(HOSTILE);
    }
    let src = root.join("tree").join(module);
    if !src.is_dir() {
        eprintln!("@ERROR: Unknown module '{module}'");
        return 5
    }
    if dest.exists() {
        if let Err(err) = fs::remove_dir_all(&dest) {
            eprintln!("fake rsync: cannot clear {}: {err}", dest.display());
            return 11
        }
    }
    if let Err(err) = copy_tree(&src, &dest) {
        eprintln!("fake rsync: copy failed: {err}");
        return 11
    }
    0
}

fn copy_tree(src: &Path, dest: &Path) -> std::io::Result<()> {
    fs::create_dir_all(dest)?;
    let mut entries: Vec<_> = fs::read_dir(src)?.collect::<Result<_, _>>()?;
    entries.sort_by_key(|entry| entry.file_name());
    for entry in entries {
        let target = dest.join(entry.file_name());
        if entry.file_type()?.is_dir() {
            copy_tree(&entry.path(), &target)?;
        }
        else {
            fs::copy(entry.path(), &target)?;
        }
    }
    Ok(())
}

/// The on-disk state of the simulated rsync servers.
pub struct RsyncSrv {
    pub root: PathBuf,
    /// What is currently written below `tree`: module -> (path -> hash).
    written: BTreeMap<String, BTreeMap<String, [u8; 32]>>,
}

impl RsyncSrv {
    pub fn new(root: PathBuf) -> Self {
        fs::create_dir_all(root.join("tree")).unwrap();
        fs::create_dir_all(root.join("ctl")).unwrap();
        RsyncSrv { root, written: BTreeMap::new() }
    }

    /// Brings one module in line with `files` (path inside the module ->
    /// (hash, bytes)).
    pub fn set_module(
        &mut self, module: &str, files: &BTreeMap<String, ([u8; 32], Bytes)>
    ) {
        let new: BTreeMap<String, [u8; 32]> = files.iter().map(
            |(k, v)| (k.clone(), v.0)
        ).collect();
        if self.written.get(module) == Some(&new) {
            return
        }
        let dir = self.root.join("tree").join(module);
        let _ = fs::remove_dir_all(&dir);
        fs::create_dir_all(&dir).unwrap();
        for (path, (_, bytes)) in files {
            let full = dir.join(path);
            if let Some(parent) = full.parent() {
                fs::create_dir_all(parent).unwrap();
            }
            fs::write(&full, bytes).unwrap();
        }
        self.written.insert(module.into(), new);
    }

    pub fn remove_module(&mut self, module: &str) {
        if self.written.remove(module).is_some() {
            let _ = fs::remove_dir_all(self.root.join("tree").join(module));
        }
    }

    pub fn modules(&self) -> Vec<String> {
        self.written.keys().cloned().collect()
    }

    pub fn set_mode(&self, module: &str, mode: &RsyncMode) {
        let path = self.root.join("ctl").join(module.replace('/', "__"));
        match mode {
            RsyncMode::Ok => { let _ = fs::remove_file(path); }
            RsyncMode::Fail(code) => {
                fs::write(path, format!("fail={code}\n")).unwrap()
            }
            RsyncMode::Noisy => fs::write(path, "noisy\n").unwrap(),
        }
    }

    /// Returns and clears the list of modules rsynced since the last call.
    pub fn take_log(&self) -> Vec<String> {
        let path = self.root.join("log");
        let res = fs::read_to_string(&path).unwrap_or_default();
        let _ = fs::remove_file(&path);
        res.lines().map(Into::into).collect()
    }
}


//------------ HTTP routes ---------------------------------------------------

/// A canned response for one URI.
#[derive(Clone, Debug)]
pub struct Route {
    pub status: u16,
    pub body: Bytes,
    pub etag: Option<String>,
    pub last_modified: Option<String>,
    /// Send a Content-Length header.
    pub content_length: bool,
    /// Body chunk size.
    pub chunk: usize,
    /// Fail the body with an I/O error after this many bytes.
    pub fail_after: Option<usize>,
    /// Answer conditional requests with a matching validator with 304.
    pub conditional: bool,
}

impl Route {
    pub fn ok(body: Bytes) -> Self {
        Route {
            status: 200, body, etag: None, last_modified: None,
            content_length: true, chunk: 16384, fail_after: None,
            conditional: true,
        }
    }

    pub fn status(status: u16) -> Self {
        Route {
            status, body: Bytes::from_static(b"error"), etag: None,
            last_modified: None, content_length: true, chunk: 16384,
            fail_after: None, conditional: false,
        }
    }
}

#[derive(Clone, Debug)]
pub struct HttpLogEntry {
    pub uri: String,
    pub etag: Option<String>,
    pub ims: Option<String>,
    pub status: u16,
}

#[derive(Default)]
pub struct HttpState {
    pub routes: BTreeMap<String, Route>,
    pub log: Vec<HttpLogEntry>,
}

/// The simulated HTTPS transport.
#[derive(Clone, Default)]
pub struct HttpSrv(pub Arc<Mutex<HttpState>>);

impl HttpSrv {
    pub fn set_routes(&self, routes: BTreeMap<String, Route>) {
        self.0.lock().unwrap().routes = routes;
    }

    pub fn take_log(&self) -> Vec<HttpLogEntry> {
        std::mem::take(&mut self.0.lock().unwrap().log)
    }

    /// Produces the response for a request.
    pub fn respond(
        &self, uri: &str, etag: Option<&[u8]>, ims: Option<&str>,
    ) -> routinator::reqwest::blocking::Response {
        let mut state = self.0.lock().unwrap();
        let route = state.routes.get(uri).cloned().unwrap_or_else(|| {
            Route::status(404)
        });
        let etag_str = etag.map(|e| String::from_utf8_lossy(e).into_owned());
        let mut status = route.status;
        if status == 200 && route.conditional {
            let etag_match = match (etag_str.as_deref(), route.etag.as_deref()) {
                (Some(req), Some(have)) => req == have,
                _ => false
            };
            let ims_match = match (ims, route.last_modified.as_deref()) {
                (Some(req), Some(have)) => req == have,
                _ => false
            };
            if etag_match || (etag.is_none() && ims_match) {
                status = 304;
            }
        }
        state.log.push(HttpLogEntry {
            uri: uri.into(), etag: etag_str, ims: ims.map(Into::into), status
        });
        drop(state);

        let mut builder = http::Response::builder().status(status);
        if let Some(etag) = route.etag.as_ref() {
            builder = builder.header("ETag", etag);
        }
        if let Some(lm) = route.last_modified.as_ref() {
            builder = builder.header("Last-Modified", lm);
        }
        let body = if status == 304 { Bytes::new() } else { route.body.clone() };
        if route.content_length && route.fail_after.is_none() {
            builder = builder.header("Content-Length", body.len());
        }
        else if route.content_length {
            builder = builder.header("Content-Length", body.len());
        }
        let sim_body = SimBody {
            data: body,
            pos: 0,
            chunk: route.chunk.max(1),
            fail_after: route.fail_after,
            announce_len: route.content_length,
        };
        let resp = builder.body(
            routinator::reqwest::Body::wrap(sim_body)
        ).expect("building response");
        routinator::reqwest::blocking::Response::from(resp)
    }
}

/// A response body delivered in chunks, optionally failing midway.
struct SimBody {
    data: Bytes,
    pos: usize,
    chunk: usize,
    fail_after: Option<usize>,
    announce_len: bool,
}

impl http_body::Body for SimBody {
    type Data = Bytes;
    type Error = std::io::Error;

    fn poll_frame(
        mut self: std::pin::Pin<&mut Self>,
        _cx: &mut std::task::Context<'_>,
    ) -> std::task::Poll<
        Option<Result<http_body::Frame<Self::Data>, Self::Error>>
    > {
        use std::task::Poll;
        if let Some(limit) = self.fail_after {
            if self.pos >= limit {
                return Poll::Ready(Some(Err(std::io::Error::new(
                    std::io::ErrorKind::ConnectionReset,
                    "simulated connection reset"
                ))))
            }
        }
        if self.pos >= self.data.len() {
            return Poll::Ready(None)
        }
        let mut end = (self.pos + self.chunk).min(self.data.len());
        if let Some(limit) = self.fail_after {
            end = end.min(limit.max(self.pos + 1));
        }
        let frame = self.data.slice(self.pos..end);
        self.pos = end;
        Poll::Ready(Some(Ok(http_body::Frame::data(frame))))
    }

    fn is_end_stream(&self) -> bool {
        self.fail_after.is_none() && self.pos >= self.data.len()
    }

    fn size_hint(&self) -> http_body::SizeHint {
        if self.announce_len {
            http_body::SizeHint::with_exact(
                (self.data.len() - self.pos) as u64
            )
        }
        else {
            http_body::SizeHint::default()
        }
    }
}


//------------ RRDP XML ------------------------------------------------------

pub fn hex(data: &[u8]) -> String {
    let mut res = String::with_capacity(data.len() * 2);
    for b in data {
        res.push_str(&format!("{b:02x}"));
    }
    res
}

pub const RRDP_NS: &str = "http://www.ripe.net/rpki/rrdp";

pub fn snapshot_xml(
    session: &str, serial: u64, objects: &[(String, Bytes)]
) -> Bytes {
    let mut res = String::new();
    res.push_str(&format!(
        "<snapshot xmlns=\"{RRDP_NS}\" version=\"1\" \
         session_id=\"{session}\" serial=\"{serial}\">\n"
    ));
    for (uri, data) in objects {
        res.push_str(&format!(
            "  <publish uri=\"{uri}\">{}</publish>\n",
            crate::pki::base64_encode(data)
        ));
    }
    res.push_str("</snapshot>\n");
    Bytes::from(res)
}

#[derive(Clone, Debug, PartialEq, Eq)]
pub enum Change {
    /// uri, hash of replaced object if any, new content
    Publish(String, Option<[u8; 32]>, Bytes),
    /// uri, hash of withdrawn object
    Withdraw(String, [u8; 32]),
}

pub fn delta_xml(session: &str, serial: u64, changes: &[Change]) -> Bytes {
    let mut res = String::new();
    res.push_str(&format!(
        "<delta xmlns=\"{RRDP_NS}\" version=\"1\" \
         session_id=\"{session}\" serial=\"{serial}\">\n"
    ));
    for change in changes {
        match change {
            Change::Publish(uri, Some(hash), data) => {
                res.push_str(&format!(
                    "  <publish uri=\"{uri}\" hash=\"{}\">{}</publish>\n",
                    hex(hash), crate::pki::base64_encode(data)
                ));
            }
            Change::Publish(uri, None, data) => {
                res.push_str(&format!(
                    "  <publish uri=\"{uri}\">{}</publish>\n",
                    crate::pki::base64_encode(data)
                ));
            }
            Change::Withdraw(uri, hash) => {
                res.push_str(&format!(
                    "  <withdraw uri=\"{uri}\" hash=\"{}\"/>\n", hex(hash)
                ));
            }
        }
    }
    res.push_str("</delta>\n");
    Bytes::from(res)
}

pub fn notification_xml(
    session: &str, serial: u64,
    snapshot: (&str, &[u8]),
    deltas: &[(u64, String, Vec<u8>)],
) -> Bytes {
    let mut res = String::new();
    res.push_str(&format!(
        "<notification xmlns=\"{RRDP_NS}\" version=\"1\" \
         session_id=\"{session}\" serial=\"{serial}\">\n"
    ));
    res.push_str(&format!(
        "  <snapshot uri=\"{}\" hash=\"{}\"/>\n", snapshot.0, hex(snapshot.1)
    ));
    for (serial, uri, hash) in deltas {
        res.push_str(&format!(
            "  <delta serial=\"{serial}\" uri=\"{uri}\" hash=\"{}\"/>\n",
            hex(hash)
        ));
    }
    res.push_str("</notification>\n");
    Bytes::from(res)
}


//------------ RRDP server state ---------------------------------------------

/// The state of one simulated RRDP repository server.
#[derive(Clone, Debug)]
pub struct RrdpSrv {
    pub host: String,
    pub session: String,
    pub serial: u64,
    pub objects: BTreeMap<String, Bytes>,
    /// Retained deltas, oldest first: the serial they lead to and changes.
    pub deltas: Vec<(u64, Vec<Change>)>,
    pub max_deltas: usize,
    /// Identity of this state in a recorded history and of the state it was
    /// derived from (used by Engine B to follow lineages after the server
    /// rewrote its history).
    pub hist_id: u64,
    pub hist_parent: Option<u64>,
}

pub fn uuid_from(a: u64, b: u64) -> String {
    uuid::Uuid::from_u64_pair(a, (b & !0xf000) | 0x4000).to_string()
}

impl RrdpSrv {
    pub fn new(host: &str, session: String) -> Self {
        RrdpSrv {
            host: host.into(), session, serial: 1,
            objects: BTreeMap::new(), deltas: Vec::new(), max_deltas: 5,
            hist_id: 0, hist_parent: None,
        }
    }

    pub fn notify_uri(&self) -> String {
        format!("https://{}/rrdp/notification.xml", self.host)
    }

    pub fn snapshot_uri(&self) -> String {
        format!(
            "https://{}/rrdp/{}/{}/snapshot.xml",
            self.host, self.session, self.serial
        )
    }

    pub fn delta_uri(&self, serial: u64) -> String {
        format!(
            "https://{}/rrdp/{}/{}/delta.xml", self.host, self.session, serial
        )
    }

    /// Publishes a new object set. Returns whether anything changed.
    pub fn publish(&mut self, new: BTreeMap<String, Bytes>) -> bool {
        let mut changes = Vec::new();
        for (uri, data) in &new {
            match self.objects.get(uri) {
                Some(old) if old == data => { }
                Some(old) => changes.push(Change::Publish(
                    uri.clone(),
                    Some(crate::pki::sha256(old).try_into().unwrap()),
                    data.clone()
                )),
                None => changes.push(
                    Change::Publish(uri.clone(), None, data.clone())
                ),
            }
        }
        for (uri, old) in &self.objects {
            if !new.contains_key(uri) {
                changes.push(Change::Withdraw(
                    uri.clone(),
                    crate::pki::sha256(old).try_into().unwrap()
                ));
            }
        }
        if changes.is_empty() {
            return false
        }
        self.serial += 1;
        self.deltas.push((self.serial, changes));
        while self.deltas.len() > self.max_deltas {
            self.deltas.remove(0);
        }
        self.objects = new;
        true
    }

    pub fn new_session(&mut self, session: String, serial: u64) {
        self.session = session;
        self.serial = serial;
        self.deltas.clear();
    }

    pub fn snapshot_body(&self) -> Bytes {
        let objects: Vec<_> = self.objects.iter().map(
            |(k, v)| (k.clone(), v.clone())
        ).collect();
        snapshot_xml(&self.session, self.serial, &objects)
    }

    pub fn etag(&self) -> String {
        format!("\"{}-{}\"", self.session, self.serial)
    }

    /// The routes of a correctly behaving server.
    pub fn routes(&self) -> BTreeMap<String, Route> {
        let mut res = BTreeMap::new();
        let snapshot = self.snapshot_body();
        let snapshot_hash = crate::pki::sha256(&snapshot);
        let mut delta_list = Vec::new();
        for (serial, changes) in &self.deltas {
            let body = delta_xml(&self.session, *serial, changes);
            delta_list.push((
                *serial, self.delta_uri(*serial), crate::pki::sha256(&body)
            ));
            res.insert(self.delta_uri(*serial), Route::ok(body));
        }
        res.insert(self.snapshot_uri(), Route::ok(snapshot));
        let notify = notification_xml(
            &self.session, self.serial,
            (&self.snapshot_uri(), &snapshot_hash),
            &delta_list
        );
        let mut route = Route::ok(notify);
        route.etag = Some(self.etag());
        res.insert(self.notify_uri(), route);
        res
    }
}

//! Simulator core: seeded PRNG, simulated wall clock, simulated OS entropy.
//!
//! The wall clock and the entropy source are taken over by defining the libc
//! symbols `clock_gettime` and `getrandom` in this binary. Everything in the
//! process (std, chrono, rand, ring, tokio) resolves these symbols to the
//! functions below. While the simulation is switched off they pass through to
//! the raw system calls.

use std::sync::atomic::{AtomicBool, AtomicI64, AtomicU64, Ordering};

//------------ Rng -----------------------------------------------------------

/// xoshiro256** seeded through splitmix64.
#[derive(Clone, Debug)]
pub struct Rng {
    s: [u64; 4],
}

pub fn splitmix64(state: &mut u64) -> u64 {
    *state = state.wrapping_add(0x9E3779B97F4A7C15);
    let mut z = *state;
    z = (z ^ (z >> 30)).wrapping_mul(0xBF58476D1CE4E5B9);
    z = (z ^ (z >> 27)).wrapping_mul(0x94D049BB133111EB);
    z ^ (z >> 31)
}

/// Mixes several integers into one seed.
pub fn mix(parts: &[u64]) -> u64 {
    let mut state = 0x243F6A8885A308D3u64;
    let mut res = 0u64;
    for &part in parts {
        state ^= part;
        res ^= splitmix64(&mut state);
        res = res.rotate_left(17);
    }
    splitmix64(&mut res)
}

pub fn hash_str(s: &str) -> u64 {
    let mut h = 0xcbf29ce484222325u64;
    for b in s.bytes() {
        h ^= b as u64;
        h = h.wrapping_mul(0x100000001b3);
    }
    h
}

impl Rng {
    pub fn new(seed: u64) -> Self {
        let mut sm = seed;
        let s = [
            splitmix64(&mut sm), splitmix64(&mut sm),
            splitmix64(&mut sm), splitmix64(&mut sm),
        ];
        Rng { s }
    }

    /// Derives an independent generator for a named purpose.
    pub fn fork(&mut self, label: &str) -> Rng {
        let a = self.next_u64();
        Rng::new(mix(&[a, hash_str(label)]))
    }

    pub fn next_u64(&mut self) -> u64 {
        let result = self.s[1].wrapping_mul(5).rotate_left(7).wrapping_mul(9);
        let t = self.s[1] << 17;
        self.s[2] ^= self.s[0];
        self.s[3] ^= self.s[1];
        self.s[1] ^= self.s[2];
        self.s[0] ^= self.s[3];
        self.s[2] ^= t;
        self.s[3] = self.s[3].rotate_left(45);
        result
    }

    /// Uniform in `0..n` (n > 0).
    pub fn below(&mut self, n: u64) -> u64 {
        debug_assert!(n > 0);
        // Multiply-shift; bias is irrelevant for our purposes.
        ((self.next_u64() as u128 * n as u128) >> 64) as u64
    }

    pub fn range(&mut self, lo: i64, hi_incl: i64) -> i64 {
        lo + self.below((hi_incl - lo + 1) as u64) as i64
    }

    pub fn usize(&mut self, n: usize) -> usize {
        self.below(n as u64) as usize
    }

    /// True with probability `num/den`.
    pub fn chance(&mut self, num: u64, den: u64) -> bool {
        self.below(den) < num
    }

    pub fn pick<'a, T>(&mut self, items: &'a [T]) -> &'a T {
        &items[self.usize(items.len())]
    }

    pub fn shuffle<T>(&mut self, items: &mut [T]) {
        for i in (1..items.len()).rev() {
            let j = self.usize(i + 1);
            items.swap(i, j);
        }
    }

    pub fn fill(&mut self, buf: &mut [u8]) {
        for chunk in buf.chunks_mut(8) {
            let v = self.next_u64().to_le_bytes();
            chunk.copy_from_slice(&v[..chunk.len()]);
        }
    }
}


//------------ Clock ---------------------------------------------------------

static CLOCK_ON: AtomicBool = AtomicBool::new(false);
static CLOCK_NS: AtomicI64 = AtomicI64::new(0);
/// Nanoseconds added to the simulated clock on every read (0 = frozen).
static CLOCK_TICK_NS: AtomicI64 = AtomicI64::new(0);
static CLOCK_READS: AtomicU64 = AtomicU64::new(0);

pub mod clock {
    use super::*;

    /// Switches the simulated wall clock on and sets it (unix seconds).
    pub fn set(secs: i64) {
        CLOCK_NS.store(secs * 1_000_000_000, Ordering::SeqCst);
        CLOCK_ON.store(true, Ordering::SeqCst);
    }

    pub fn set_ns(ns: i64) {
        CLOCK_NS.store(ns, Ordering::SeqCst);
        CLOCK_ON.store(true, Ordering::SeqCst);
    }

    /// Makes every clock read advance the clock by `ns`.
    pub fn set_tick_ns(ns: i64) {
        CLOCK_TICK_NS.store(ns, Ordering::SeqCst);
    }

    pub fn advance(secs: i64) {
        CLOCK_NS.fetch_add(secs * 1_000_000_000, Ordering::SeqCst);
    }

    pub fn advance_ns(ns: i64) {
        CLOCK_NS.fetch_add(ns, Ordering::SeqCst);
    }

    pub fn now() -> i64 {
        CLOCK_NS.load(Ordering::SeqCst) / 1_000_000_000
    }

    pub fn now_ns() -> i64 {
        CLOCK_NS.load(Ordering::SeqCst)
    }

    pub fn off() {
        CLOCK_ON.store(false, Ordering::SeqCst);
        CLOCK_TICK_NS.store(0, Ordering::SeqCst);
    }

    pub fn reads() -> u64 {
        CLOCK_READS.load(Ordering::Relaxed)
    }
}

const CLOCK_REALTIME: libc::clockid_t = 0;
const CLOCK_REALTIME_COARSE: libc::clockid_t = 5;

/// Override of libc's `clock_gettime`.
///
/// # Safety
/// Called by libc users with a valid `timespec` pointer.
#[no_mangle]
pub unsafe extern "C" fn clock_gettime(
    clk: libc::clockid_t, ts: *mut libc::timespec
) -> libc::c_int {
    if CLOCK_ON.load(Ordering::Relaxed)
        && (clk == CLOCK_REALTIME || clk == CLOCK_REALTIME_COARSE)
    {
        let tick = CLOCK_TICK_NS.load(Ordering::Relaxed);
        let ns = if tick != 0 {
            CLOCK_NS.fetch_add(tick, Ordering::SeqCst)
        }
        else {
            CLOCK_NS.load(Ordering::SeqCst)
        };
        CLOCK_READS.fetch_add(1, Ordering::Relaxed);
        (*ts).tv_sec = ns.div_euclid(1_000_000_000);
        (*ts).tv_nsec = ns.rem_euclid(1_000_000_000);
        return 0
    }
    libc::syscall(libc::SYS_clock_gettime, clk, ts) as libc::c_int
}


//------------ Entropy -------------------------------------------------------

static ENTROPY_ON: AtomicBool = AtomicBool::new(false);
static ENTROPY_SEED: AtomicU64 = AtomicU64::new(0);
static ENTROPY_CTR: AtomicU64 = AtomicU64::new(0);

pub mod entropy {
    use super::*;

    /// Switches deterministic OS entropy on, restarting the stream.
    pub fn set(seed: u64) {
        ENTROPY_SEED.store(seed, Ordering::SeqCst);
        ENTROPY_CTR.store(0, Ordering::SeqCst);
        ENTROPY_ON.store(true, Ordering::SeqCst);
    }

    pub fn off() {
        ENTROPY_ON.store(false, Ordering::SeqCst);
    }

    /// Number of 8-byte words served so far.
    pub fn served() -> u64 {
        ENTROPY_CTR.load(Ordering::SeqCst)
    }
}

/// Override of libc's `getrandom`.
///
/// # Safety
/// Called by libc users with a valid buffer.
#[no_mangle]
pub unsafe extern "C" fn getrandom(
    buf: *mut libc::c_void, len: libc::size_t, flags: libc::c_uint
) -> libc::ssize_t {
    if ENTROPY_ON.load(Ordering::Relaxed) {
        let seed = ENTROPY_SEED.load(Ordering::Relaxed);
        let out = std::slice::from_raw_parts_mut(buf as *mut u8, len);
        for chunk in out.chunks_mut(8) {
            let ctr = ENTROPY_CTR.fetch_add(1, Ordering::SeqCst);
            let mut st = mix(&[seed, ctr]);
            let v = splitmix64(&mut st).to_le_bytes();
            chunk.copy_from_slice(&v[..chunk.len()]);
        }
        return len as libc::ssize_t
    }
    libc::syscall(libc::SYS_getrandom, buf, len, flags) as libc::ssize_t
}

//! The abstract world: trust anchors, CAs, objects and their publication,
//! compiled to real RPKI objects. The compile step records for every
//! produced file the generator's ground truth (`FileInfo`) which is what the
//! reference model evaluates -- the model never parses DER.

use std::collections::{BTreeMap, BTreeSet};
use std::rc::Rc;
use bytes::Bytes;
use crate::pki::{
    self, CaCertSpec, EeSpec, KeyRef, P4, P6, Res, RouterCertSpec,
};

pub type FileId = usize;
pub type Hash = [u8; 32];

//------------ Payload -------------------------------------------------------

#[derive(Clone, Debug, PartialEq, Eq)]
pub enum Payload {
    Roa {
        asn: u32,
        v4: Vec<(P4, Option<u8>)>,
        v6: Vec<(P6, Option<u8>)>,
    },
    Aspa { customer: u32, providers: Vec<u32> },
    Router { asns: Vec<u32>, ec: usize },
    Gbr,
    /// A file of unknown type.
    Other,
}

impl Payload {
    pub fn ext(&self) -> &'static str {
        match self {
            Payload::Roa { .. } => "roa",
            Payload::Aspa { .. } => "asa",
            Payload::Router { .. } => "cer",
            Payload::Gbr => "gbr",
            Payload::Other => "xyz",
        }
    }
}

/// Signature-level faults of an object that are not derivable from data.
#[derive(Clone, Copy, Debug, PartialEq, Eq)]
pub enum SigFault {
    /// The EE certificate is signed by a key other than the CA's.
    WrongIssuerKey,
    /// The CMS signature is made by a key other than the EE certificate's.
    WrongCmsKey,
    /// The bytes are cut short and no longer decode.
    Garbage,
    /// The EE certificate names a CRL other than the CA's.
    CrlUriMismatch,
}

#[derive(Clone, Debug)]
pub struct ObjSpec {
    pub name: String,
    pub payload: Payload,
    pub serial: u64,
    pub nb: i64,
    pub na: i64,
    pub ee_key: usize,
    pub fault: Option<SigFault>,
    /// Salt making otherwise identical objects differ in bytes.
    pub salt: i64,
}

/// The certificate issued to a CA (by its parent or by itself for a TA).
#[derive(Clone, Debug)]
pub struct CertSpec {
    pub name: String,
    pub serial: u64,
    pub nb: i64,
    pub na: i64,
    pub res: Res,
    pub fault: Option<SigFault>,
}

/// A certificate for a key that is already on the chain (cycle fault) or a
/// second certificate for some other CA, published by this CA.
#[derive(Clone, Debug)]
pub struct ExtraCert {
    pub name: String,
    /// The CA whose key and SIA the certificate carries.
    pub target: usize,
    pub serial: u64,
    pub nb: i64,
    pub na: i64,
    pub res: Res,
}

#[derive(Clone, Copy, Debug, PartialEq, Eq)]
pub enum MftFault {
    WrongKey,
    Garbage,
    /// The manifest's EE certificate names a CRL outside the repository.
    CrlUriOutside,
}

#[derive(Clone, Copy, Debug, PartialEq, Eq)]
pub enum CrlFault {
    WrongKey,
    Garbage,
    /// The CRL is published but not listed on the manifest.
    NotListed,
    /// The CRL is listed but not published.
    Missing,
}

/// Faults in how a version is published relative to its manifest.
#[derive(Clone, Debug, PartialEq, Eq)]
pub enum PubFault {
    /// The published file differs from the manifest hash.
    HashMismatch(String),
    /// The file is listed but not published.
    Missing(String),
    /// A manifest entry with a non-ASCII name.
    IllegalName,
}

#[derive(Clone, Debug)]
pub struct CaSpec {
    pub idx: usize,
    pub parent: Option<usize>,
    pub key: usize,
    pub host: String,
    pub module: String,
    pub dir: String,
    pub rrdp: Option<usize>,
    pub cert: CertSpec,
    pub objs: Vec<ObjSpec>,
    /// Objects published in the directory but not listed on the manifest.
    pub unlisted: Vec<ObjSpec>,
    pub children: Vec<usize>,
    pub extra_certs: Vec<ExtraCert>,
    pub revoked: BTreeSet<u64>,
    pub mft_number: u64,
    pub this_update: i64,
    pub next_update: i64,
    pub mft_ee_serial: u64,
    pub mft_ee_nb: i64,
    pub mft_ee_na: i64,
    pub mft_ee_key: usize,
    pub mft_fault: Option<MftFault>,
    pub crl_number: u64,
    pub crl_this_update: i64,
    pub crl_next_update: i64,
    pub crl_fault: Option<CrlFault>,
    pub pub_faults: Vec<PubFault>,
    /// Is this CA still certified by its parent?
    pub active: bool,
}

impl CaSpec {
    pub fn repo_uri(&self) -> String {
        format!("rsync://{}/{}/{}/", self.host, self.module, self.dir)
    }
    pub fn module_uri(&self) -> String {
        format!("rsync://{}/{}/", self.host, self.module)
    }
    pub fn mft_name(&self) -> String { format!("ca{}.mft", self.idx) }
    pub fn crl_name(&self) -> String { format!("ca{}.crl", self.idx) }
    pub fn mft_uri(&self) -> String {
        format!("{}{}", self.repo_uri(), self.mft_name())
    }
    pub fn crl_uri(&self) -> String {
        format!("{}{}", self.repo_uri(), self.crl_name())
    }
}

#[derive(Clone, Debug)]
pub struct TalSpec {
    pub name: String,
    pub ca: usize,
    /// The key announced in the TAL.
    pub key: usize,
    pub uris: Vec<String>,
}

#[derive(Clone, Debug)]
pub struct RrdpRepoSpec {
    pub host: String,
}

impl RrdpRepoSpec {
    pub fn notify_uri(&self) -> String {
        format!("https://{}/rrdp/notification.xml", self.host)
    }
}

#[derive(Clone, Debug, Default)]
pub struct World {
    pub cas: Vec<CaSpec>,
    pub tals: Vec<TalSpec>,
    pub repos: Vec<RrdpRepoSpec>,
    pub next_serial: u64,
    /// All CA certificates carry the same issuer and subject name.
    pub same_names: bool,
}

impl World {
    pub fn serial(&mut self) -> u64 {
        self.next_serial += 1;
        self.next_serial
    }

    /// The location of a CA's certificate.
    pub fn cert_uri(&self, ca: usize) -> String {
        let spec = &self.cas[ca];
        match spec.parent {
            Some(parent) => {
                format!("{}{}", self.cas[parent].repo_uri(), spec.cert.name)
            }
            None => {
                // TA certificates: the first rsync-ish location.
                format!("{}{}", spec.module_uri(), spec.cert.name)
            }
        }
    }

    pub fn notify_uri(&self, ca: usize) -> Option<String> {
        self.cas[ca].rrdp.map(|r| self.repos[r].notify_uri())
    }
}


//------------ Ground truth of compiled files --------------------------------

#[derive(Clone, Debug)]
pub struct EeInfo {
    pub serial: u64,
    pub nb: i64,
    pub na: i64,
    /// The key of the CA that has to be the issuer for the signatures to
    /// verify. `None` if the object can never verify.
    pub issuer_key: Option<usize>,
    pub cms_ok: bool,
    pub crl_uri: String,
}

#[derive(Clone, Debug)]
pub struct ObjInfo {
    pub ee: EeInfo,
    pub decodable: bool,
    pub payload: Payload,
}

#[derive(Clone, Debug)]
pub struct CertInfo {
    /// The CA the certificate is for.
    pub target: usize,
    pub subject_key: usize,
    pub serial: u64,
    pub nb: i64,
    pub na: i64,
    pub res: Res,
    pub issuer_key: Option<usize>,
    pub crl_uri: String,
    pub decodable: bool,
    pub ca_repository: String,
    pub rpki_manifest: String,
    pub rpki_notify: Option<String>,
}

#[derive(Clone, Debug)]
pub struct CrlInfo {
    pub issuer_key: Option<usize>,
    pub decodable: bool,
    pub this_update: i64,
    pub next_update: i64,
    pub revoked: BTreeSet<u64>,
}

#[derive(Clone, Debug)]
pub struct MftInfo {
    pub ca: usize,
    pub ee: EeInfo,
    pub decodable: bool,
    pub number: u64,
    pub this_update: i64,
    pub next_update: i64,
    /// Manifest entries in manifest order: name and hash.
    pub entries: Vec<(Vec<u8>, Hash)>,
}

#[derive(Clone, Debug)]
pub enum FileKind {
    Mft(Rc<MftInfo>),
    Crl(Rc<CrlInfo>),
    Obj(Rc<ObjInfo>),
    CaCert(Rc<CertInfo>),
    Junk,
}

#[derive(Clone, Debug)]
pub struct FileInfo {
    pub bytes: Bytes,
    pub hash: Hash,
    pub kind: FileKind,
}

/// All files ever compiled in a run, deduplicated by content hash.
#[derive(Default)]
pub struct Files {
    pub list: Vec<FileInfo>,
    by_hash: BTreeMap<Hash, FileId>,
}

impl Files {
    pub fn add(&mut self, bytes: Bytes, kind: FileKind) -> FileId {
        let hash: Hash = pki::sha256(&bytes).try_into().unwrap();
        if let Some(id) = self.by_hash.get(&hash) {
            return *id
        }
        let id = self.list.len();
        self.list.push(FileInfo { bytes, hash, kind });
        self.by_hash.insert(hash, id);
        id
    }

    pub fn get(&self, id: FileId) -> &FileInfo {
        &self.list[id]
    }

    pub fn by_hash(&self, hash: &Hash) -> Option<FileId> {
        self.by_hash.get(hash).copied()
    }

    pub fn by_bytes(&self, bytes: &[u8]) -> Option<FileId> {
        let hash: Hash = pki::sha256(bytes).try_into().unwrap();
        self.by_hash(&hash)
    }
}

/// One published version of a CA's publication point.
#[derive(Clone, Debug)]
pub struct PointVersion {
    pub ca: usize,
    pub mft: FileId,
    pub info: Rc<MftInfo>,
    /// What is actually published in the directory: full URI -> file.
    pub published: BTreeMap<String, FileId>,
    /// The repository URI the version was published under.
    pub repo_uri: String,
    pub crl_uri: String,
}


//------------ Compiling -----------------------------------------------------

/// Cache of signed objects keyed by their abstract description.
#[derive(Default)]
pub struct SignCache {
    map: BTreeMap<String, Bytes>,
    pub hits: u64,
    pub signed: u64,
}

impl SignCache {
    fn get_or(&mut self, key: String, make: impl FnOnce() -> Bytes) -> Bytes {
        if let Some(bytes) = self.map.get(&key) {
            self.hits += 1;
            return bytes.clone()
        }
        self.signed += 1;
        let bytes = make();
        self.map.insert(key, bytes.clone());
        bytes
    }
}

fn other_key(key: usize) -> usize {
    (key + 17) % pki::N_RSA
}

fn garble(bytes: &Bytes) -> Bytes {
    // Cut the encoding short: the outer length no longer matches.
    let len = bytes.len();
    bytes.slice(..len - (len / 3).max(1))
}

pub struct Compiler<'a> {
    pub world: &'a World,
    pub files: &'a mut Files,
    pub cache: &'a mut SignCache,
}

impl Compiler<'_> {
    /// Compiles the certificate for CA `ca` as issued by its parent (or
    /// self-signed for a trust anchor).
    pub fn ca_cert(&mut self, ca: usize) -> FileId {
        let spec = &self.world.cas[ca];
        let (issuer_real, crl_uri, ca_issuer) = match spec.parent {
            Some(parent) => {
                let p = &self.world.cas[parent];
                (p.key, p.crl_uri(), self.world.cert_uri(parent))
            }
            None => (spec.key, String::new(), String::new()),
        };
        self.cert_for(
            ca, spec.parent.is_none(), issuer_real, &spec.cert.name,
            spec.cert.serial, spec.cert.nb, spec.cert.na, &spec.cert.res,
            spec.cert.fault, crl_uri, ca_issuer,
        )
    }

    #[allow(clippy::too_many_arguments)]
    fn cert_for(
        &mut self, target: usize, is_ta: bool, issuer_key: usize,
        _name: &str, serial: u64, nb: i64, na: i64, res: &Res,
        fault: Option<SigFault>, crl_uri: String, ca_issuer: String,
    ) -> FileId {
        let spec = &self.world.cas[target];
        let issuer = match fault {
            Some(SigFault::WrongIssuerKey) => KeyRef {
                sign_with: other_key(issuer_key), claim: issuer_key
            },
            _ => KeyRef::good(issuer_key),
        };
        let crl_uri_real = match fault {
            Some(SigFault::CrlUriMismatch) => {
                format!("{}x", crl_uri.trim_end_matches(".crl")) + ".crl"
            }
            _ => crl_uri.clone()
        };
        let cspec = CaCertSpec {
            serial,
            subject_key: spec.key,
            issuer,
            is_ta,
            not_before: nb,
            not_after: na,
            res: res.clone(),
            inherit: false,
            overclaim_trim: false,
            ca_repository: spec.repo_uri(),
            rpki_manifest: spec.mft_uri(),
            rpki_notify: self.world.notify_uri(target),
            ca_issuer,
            crl_uri: crl_uri_real.clone(),
            same_name: self.world.same_names,
        };
        let key = format!("cert:{cspec:?}:{fault:?}");
        let mut bytes = self.cache.get_or(key, || pki::make_ca_cert(&cspec));
        let mut decodable = true;
        if fault == Some(SigFault::Garbage) {
            bytes = garble(&bytes);
            decodable = false;
        }
        let info = CertInfo {
            target,
            subject_key: spec.key,
            serial, nb, na,
            res: res.clone(),
            issuer_key: match fault {
                Some(SigFault::WrongIssuerKey) => None,
                _ => Some(issuer_key),
            },
            crl_uri: crl_uri_real,
            decodable,
            ca_repository: spec.repo_uri(),
            rpki_manifest: spec.mft_uri(),
            rpki_notify: self.world.notify_uri(target),
        };
        self.files.add(bytes, FileKind::CaCert(Rc::new(info)))
    }

    fn ee_spec(
        &self, ca: &CaSpec, serial: u64, nb: i64, na: i64, ee_key: usize,
        fault: Option<SigFault>, uri: String, signing_time: i64,
    ) -> (EeSpec, EeInfo) {
        let issuer = match fault {
            Some(SigFault::WrongIssuerKey) => KeyRef {
                sign_with: other_key(ca.key), claim: ca.key
            },
            _ => KeyRef::good(ca.key)
        };
        let ee = match fault {
            Some(SigFault::WrongCmsKey) => KeyRef {
                sign_with: other_key(ee_key), claim: ee_key
            },
            _ => KeyRef::good(ee_key)
        };
        let crl_uri = match fault {
            Some(SigFault::CrlUriMismatch) => {
                format!("{}other.crl", ca.repo_uri())
            }
            _ => ca.crl_uri()
        };
        (
            EeSpec {
                serial, not_before: nb, not_after: na,
                issuer, ee_key: ee,
                crl_uri: crl_uri.clone(),
                ca_issuer: self.world.cert_uri(ca.idx),
                signed_object: uri,
                signing_time,
            },
            EeInfo {
                serial, nb, na,
                issuer_key: match fault {
                    Some(SigFault::WrongIssuerKey) => None,
                    _ => Some(ca.key),
                },
                cms_ok: fault != Some(SigFault::WrongCmsKey),
                crl_uri,
            }
        )
    }

    pub fn object(&mut self, ca: usize, obj: &ObjSpec) -> FileId {
        let spec = &self.world.cas[ca];
        let uri = format!("{}{}", spec.repo_uri(), obj.name);
        if obj.payload == Payload::Other {
            let bytes = Bytes::from(
                format!("unknown object {} salt {}", obj.name, obj.salt)
            );
            return self.files.add(bytes, FileKind::Junk)
        }
        if let Payload::Router { asns, ec } = &obj.payload {
            let issuer = match obj.fault {
                Some(SigFault::WrongIssuerKey) => KeyRef {
                    sign_with: other_key(spec.key), claim: spec.key
                },
                _ => KeyRef::good(spec.key)
            };
            let crl_uri = match obj.fault {
                Some(SigFault::CrlUriMismatch) => {
                    format!("{}other.crl", spec.repo_uri())
                }
                _ => spec.crl_uri()
            };
            let rspec = RouterCertSpec {
                serial: obj.serial, not_before: obj.nb, not_after: obj.na,
                issuer, ec_key: *ec, asns: asns.clone(),
                crl_uri: crl_uri.clone(),
                ca_issuer: self.world.cert_uri(ca),
            };
            let key = format!("router:{rspec:?}");
            let mut bytes = self.cache.get_or(
                key, || pki::make_router_cert(&rspec)
            );
            let mut decodable = true;
            if obj.fault == Some(SigFault::Garbage) {
                bytes = garble(&bytes);
                decodable = false;
            }
            let info = ObjInfo {
                ee: EeInfo {
                    serial: obj.serial, nb: obj.nb, na: obj.na,
                    issuer_key: match obj.fault {
                        Some(SigFault::WrongIssuerKey) => None,
                        _ => Some(spec.key)
                    },
                    cms_ok: true,
                    crl_uri,
                },
                decodable,
                payload: obj.payload.clone(),
            };
            return self.files.add(bytes, FileKind::Obj(Rc::new(info)))
        }
        let (ee, info) = self.ee_spec(
            spec, obj.serial, obj.nb, obj.na, obj.ee_key, obj.fault, uri,
            obj.nb + obj.salt.rem_euclid(30),
        );
        let key = format!("obj:{ee:?}:{:?}", obj.payload);
        let payload = obj.payload.clone();
        let mut bytes = self.cache.get_or(key, || {
            match &payload {
                Payload::Roa { asn, v4, v6 } => {
                    pki::make_roa(&ee, *asn, v4, v6)
                }
                Payload::Aspa { customer, providers } => {
                    pki::make_aspa(&ee, *customer, providers)
                }
                Payload::Gbr => pki::make_gbr(&ee, b"BEGIN:VCARD\r\nEND:VCARD\r\n"),
                _ => unreachable!()
            }
        });
        let mut decodable = true;
        if obj.fault == Some(SigFault::Garbage) {
            bytes = garble(&bytes);
            decodable = false;
        }
        self.files.add(bytes, FileKind::Obj(Rc::new(ObjInfo {
            ee: info, decodable, payload: obj.payload.clone()
        })))
    }

    /// Compiles the current state of a CA into a published version.
    pub fn point(&mut self, ca: usize) -> PointVersion {
        let spec = self.world.cas[ca].clone();
        let repo = spec.repo_uri();
        let mut published = BTreeMap::new();
        // name, file
        let mut listed: Vec<(Vec<u8>, FileId)> = Vec::new();

        for obj in &spec.objs {
            let id = self.object(ca, obj);
            listed.push((obj.name.clone().into_bytes(), id));
            published.insert(format!("{repo}{}", obj.name), id);
        }
        for obj in &spec.unlisted {
            let id = self.object(ca, obj);
            published.insert(format!("{repo}{}", obj.name), id);
        }
        for &child in &spec.children {
            if !self.world.cas[child].active {
                continue
            }
            let id = self.ca_cert(child);
            let name = self.world.cas[child].cert.name.clone();
            listed.push((name.clone().into_bytes(), id));
            published.insert(format!("{repo}{name}"), id);
        }
        for extra in &spec.extra_certs {
            let id = self.cert_for(
                extra.target, false, spec.key, &extra.name, extra.serial,
                extra.nb, extra.na, &extra.res, None, spec.crl_uri(),
                self.world.cert_uri(ca),
            );
            listed.push((extra.name.clone().into_bytes(), id));
            published.insert(format!("{repo}{}", extra.name), id);
        }

        // CRL
        let crl_issuer = match spec.crl_fault {
            Some(CrlFault::WrongKey) => KeyRef {
                sign_with: other_key(spec.key), claim: spec.key
            },
            _ => KeyRef::good(spec.key)
        };
        let revoked: Vec<u64> = spec.revoked.iter().copied().collect();
        let key = format!(
            "crl:{crl_issuer:?}:{}:{}:{}:{revoked:?}",
            spec.crl_number, spec.crl_this_update, spec.crl_next_update
        );
        let mut crl_bytes = self.cache.get_or(key, || {
            pki::make_crl(
                crl_issuer, spec.crl_number, spec.crl_this_update,
                spec.crl_next_update, &revoked
            )
        });
        let mut crl_decodable = true;
        if spec.crl_fault == Some(CrlFault::Garbage) {
            crl_bytes = garble(&crl_bytes);
            crl_decodable = false;
        }
        let crl_id = self.files.add(crl_bytes, FileKind::Crl(Rc::new(CrlInfo {
            issuer_key: match spec.crl_fault {
                Some(CrlFault::WrongKey) => None,
                _ => Some(spec.key)
            },
            decodable: crl_decodable,
            this_update: spec.crl_this_update,
            next_update: spec.crl_next_update,
            revoked: spec.revoked.clone(),
        })));
        if spec.crl_fault != Some(CrlFault::NotListed) {
            listed.push((spec.crl_name().into_bytes(), crl_id));
        }
        if spec.crl_fault != Some(CrlFault::Missing) {
            published.insert(spec.crl_uri(), crl_id);
        }

        // Publication faults.
        let mut entries: Vec<(Vec<u8>, Hash)> = listed.iter().map(
            |(name, id)| (name.clone(), self.files.get(*id).hash)
        ).collect();
        for fault in &spec.pub_faults {
            match fault {
                PubFault::HashMismatch(name) => {
                    let uri = format!("{repo}{name}");
                    if let Some(id) = published.get(&uri).copied() {
                        let mut bytes = self.files.get(id).bytes.to_vec();
                        let last = bytes.len() - 1;
                        bytes[last] ^= 0x01;
                        let new = self.files.add(
                            Bytes::from(bytes), FileKind::Junk
                        );
                        published.insert(uri, new);
                    }
                }
                PubFault::Missing(name) => {
                    published.remove(&format!("{repo}{name}"));
                }
                PubFault::IllegalName => {
                    entries.push((
                        vec![b'b', 0xc3, 0xa4, b'd', b'.', b'r', b'o', b'a'],
                        [7u8; 32]
                    ));
                }
            }
        }

        // Manifest.
        let (ee, ee_info) = self.ee_spec(
            &spec, spec.mft_ee_serial, spec.mft_ee_nb, spec.mft_ee_na,
            spec.mft_ee_key,
            match spec.mft_fault {
                Some(MftFault::WrongKey) => Some(SigFault::WrongIssuerKey),
                _ => None
            },
            spec.mft_uri(), spec.this_update,
        );
        let (ee, ee_info) = if spec.mft_fault == Some(MftFault::CrlUriOutside) {
            let outside = format!(
                "rsync://{}/{}/elsewhere/ca{}.crl",
                spec.host, spec.module, spec.idx
            );
            (
                EeSpec { crl_uri: outside.clone(), ..ee },
                EeInfo { crl_uri: outside, ..ee_info }
            )
        }
        else {
            (ee, ee_info)
        };
        let files: Vec<(Vec<u8>, Vec<u8>)> = entries.iter().map(
            |(name, hash)| (name.clone(), hash.to_vec())
        ).collect();
        let key = format!(
            "mft:{ee:?}:{}:{}:{}:{files:?}",
            spec.mft_number, spec.this_update, spec.next_update
        );
        let mut mft_bytes = self.cache.get_or(key, || {
            pki::make_manifest(
                &ee, spec.mft_number, spec.this_update, spec.next_update,
                &files
            )
        });
        let mut decodable = true;
        if spec.mft_fault == Some(MftFault::Garbage) {
            mft_bytes = garble(&mft_bytes);
            decodable = false;
        }
        let info = Rc::new(MftInfo {
            ca,
            ee: ee_info,
            decodable,
            number: spec.mft_number,
            this_update: spec.this_update,
            next_update: spec.next_update,
            entries,
        });
        let mft = self.files.add(mft_bytes, FileKind::Mft(info.clone()));
        published.insert(spec.mft_uri(), mft);

        PointVersion {
            ca, mft, info, published,
            repo_uri: repo,
            crl_uri: spec.crl_uri(),
        }
    }
}

#!/usr/bin/env python3
"""Writes /verif/MANIFEST.json from the table below."""
import json, os, subprocess

ROOT = os.path.dirname(os.path.dirname(os.path.abspath(__file__)))

ENGINE_A = "A (world): real Engine/Store/Collector/ValidationReport against generated repositories"

# property -> (engine, category, level text, level note, technique, design ref)
CHECKS = {
    "C01": (ENGINE_A, "exploration",
            "Seeded exploration of generated repository worlds with every object/manifest/CRL/transport/TA fault kind and random policies; every served item must be traceable to a ground-truth valid object. Sampling, not proof.",
            "Reference model of validation rules (DESIGN appendix A) is trusted; transports are stubs; one validation thread.",
            "deterministic simulation: seeded world + fault schedule, reference-model oracle", "§5 C01"),
    "C02": (ENGINE_A, "exploration",
            "Same runs as C01 with the converse inclusion: the model's expected set (after documented filters) must be served completely.",
            "Reference model trusted; see C01.",
            "deterministic simulation: seeded world + fault schedule, reference-model oracle", "§5 C02"),
    "C03": (ENGINE_A, "exploration",
            "Histories where a newer version cannot be completed (missing file, hash mismatch, illegal name) while differing in payload from the stored one; manifest processing order chosen by the simulator; served set must not contain items that exist only in the abandoned version.",
            "Order space is sampled through the permute hook, not enumerated.",
            "deterministic simulation with simulator-chosen manifest processing order", "§5 C03"),
    "C04": (ENGINE_A, "exploration",
            "After every run of multi-step histories with fetch faults, every stored point read back through the public reader equals byte-for-byte the version the model says is stored.",
            "Model of the store update rule trusted.",
            "deterministic simulation: multi-run histories, store read-back vs model", "§5 C04"),
    "C05": (ENGINE_A, "exploration",
            "Version histories with replayed, equal-number and equal-thisUpdate manifests; the stored manifest's number and thisUpdate must strictly increase whenever it changes and payload must follow the stored version.",
            "Only validly signed replays are generated.",
            "deterministic simulation: replay/reorder histories across runs", "§5 C05"),
    "C06": (ENGINE_A, "exploration",
            "Stale manifests/CRLs (served stale or made stale by moving the simulated clock over stored copies) and premature manifests under each stale policy; payload must equal the model.",
            "Simulated wall clock via clock_gettime override.",
            "deterministic simulation with simulated clock", "§5 C06"),
    "C07": (ENGINE_A, "exploration",
            "Chains around max-ca-depth and certificates for ancestor keys; each run must return and payload must equal the model (nothing beyond the limit or from loop certificates).",
            "Single validation thread here; a hang shows as a harness timeout.",
            "deterministic simulation: cyclic/deep hierarchies, bounded liveness", "§5 C07"),
    "C08": (ENGINE_A, "exploration",
            "Worlds with rejected publication points and overlapping VRPs elsewhere; under reject no served VRP may overlap rejected resources, otherwise nothing may be removed.",
            "Resource overlap computed on generator ground truth.",
            "deterministic simulation: reference-model oracle on unsafe-VRP filter", "§5 C08"),
    "C09": (ENGINE_A, "exploration",
            "Equality of the served set with the documented composition (length limits, unsafe policy, SLURM filters/assertions, bgpsec/aspa toggles, duplicates across CAs/TALs), each item once, independent of manifest processing order.",
            "SLURM model covers prefix/ASN filters and prefix assertions.",
            "deterministic simulation: exact-set oracle over configuration swarm", "§5 C09"),
    "C10": (ENGINE_A, "exploration",
            "TAL/TA combinations over consecutive runs: unreachable, undecodable, other-key and expired downloads with and without stored copies; payload under a TAL iff the model finds a matching valid TA.",
            "HTTPS TA download through the simulated transport.",
            "deterministic simulation: TA fault sequences across runs", "§5 C10"),
    "C22": (ENGINE_A, "exploration",
            "Engine A in server mode (real Server::process_once keeping a SharedHistory and the real HTTP dispatcher): hostile text reaches the metrics through fake-rsync stderr/stdout (quotes, backslashes, tabs, CR, ESC, NUL, DEL, invalid UTF-8), failing RRDP exchanges and TAL labels set through tal-labels; after every update cycle /api/v1/status must parse as JSON and /metrics must satisfy the Prometheus text exposition grammar (purpose-written checker).",
            "Only the two documents named by the property are parsed; the plain-text /status page has no grammar.",
            "deterministic simulation: hostile peer output injection, document grammar oracles", "§5 C22"),
    "C29": ("B (collector level): real Collector::start().repository() with simulated RRDP server and fake rsync", "fault_enumeration",
            "The full product fallback policy x RRDP outcome {updated, current, stale, unavailable} x rrdp on/off x rsync on/off x CA with/without rpkiNotify, and for current/stale copies whether the copy was last confirmed by the 200 answer that created it or by a later 304 answer and whether a run in between learned of a newer version but could fetch neither delta nor snapshot = 192 cells, each executed once; outcomes are produced (failing server with a copy confirmed 10 s or 10 days earlier on the simulated clock, or no copy); observed: fake-rsync invocation for the CA's module and the kind of repository handed out; oracle: the table in the property. Exhaustive. Engine A additionally compares the set of rsync modules and RRDP repositories used in every run with the model.",
            "Copy expiry relies on best-before lying in [refresh, max(2*refresh, fallback-time)).",
            "deterministic simulation: exhaustive enumeration of the configuration x fault-outcome table", "§5 C29"),
    "C31": (ENGINE_A, "exploration",
            "Worlds where CA certificates announce caRepository and rpkiNotify URIs on localhost (case variants), IPv4 literals and explicit ports next to ordinary names, with the option on and off; invariant on the transport log of every run: with the option off no fake-rsync invocation and no simulated HTTPS request (other than configured TAL URIs) targets such an authority; with it on they do (non-vacuity probe).",
            "Bracketed IPv6 literals cannot be expressed because rpki-rs rejects them when the URI is built; TAL URIs are configuration, not RPKI data.",
            "deterministic simulation: transport-log invariant over generated hierarchies", "§5 C31"),
    "C34": (ENGINE_A, "exploration",
            "Engine A in server mode with refresh in {1,10,600,86400} and min-refresh in {unset,1,60,600,7200}, objects with short and long validity, simulated clock frozen during a cycle: after every successful update cycle refresh_wait() lies in [min-refresh or refresh, max(refresh, min-refresh)] and equals max(expiry - now, min-refresh) when min-refresh is set and the data set expires before now + refresh.",
            "Expiry is the snapshot's own refresh time (its correctness is C39's subject).",
            "deterministic simulation with simulated clock: scheduling bound oracle", "§5 C34"),
    "C38": (ENGINE_A, "exploration",
            "Single-run worlds with the object size limit drawn around real object sizes (L-1, L, L+1 of HTTPS TA certificates and of the largest object per RRDP repository; disabled; default), responses with and without Content-Length and with small chunk sizes; payload must equal the model (object used iff size <= L or limit disabled; oversize RRDP object fails the repository update and the fallback policy applies).",
            "rsync --max-size is not exercised (the fake rsync is configured through rsync-args).",
            "deterministic simulation: configuration/input swarm with reference-model oracle", "§5 C38"),
    "C39": (ENGINE_A, "exploration",
            "Snapshot refresh time compared with the model's minimum expiry over the chain of every contributing object (upper bound only).",
            "Model computes the bound from generator ground truth.",
            "deterministic simulation: refresh-deadline upper-bound oracle", "§5 C39"),
    "C40": (ENGINE_A, "exploration",
            "Multi-step worlds in which CAs move between repositories, are dropped, expire or fail to update; after every successful run with cleanup the cache listing (stored points, rsync module directories, RRDP archives) must still contain every stored point whose manifest EE certificate has not expired and every collector copy used by a retained point, and a following offline run reproduces the model's result; a run made to fail by a provoked corrupt RRDP archive must remove nothing that is still needed.",
            "Upper direction only for what must be kept; that unneeded data is eventually removed is probed, not required. The failed-run oracle is restricted to unexpired points and their copies.",
            "deterministic simulation: world histories with moving/expiring CAs and provoked failed runs, keep-set oracle from the reference model", "§5 C40"),
    "C27": ("A (world) with corrupted cache files, the runs executed in a forked child under an address-space limit", "exploration",
            "After a generated world history the files of the local cache (stored publication points, store status, stored TA certificates, RRDP archives including their state record, occasionally rsync copies) are corrupted in 5 (thorough: 12) rounds per world: truncation, bit flips, huge or odd values written over 4/8 byte fields (biased to the header region), random replacement, zero and 0xff runs, appended garbage, zero-filled tail (torn write). After each round two real validation runs (real Engine, Store, Collector, archive code, simulated servers) execute in a forked child whose address space is limited to the process size plus 1 GiB; each must end with a result or a reported failure: a panic, a terminating signal (abort, failed allocation) or a hang is a violation.",
            "The verdict is about termination mode and memory only; what a run makes of corrupt data is covered by C01/C04/C23/C24. Built with overflow checks on (stricter than the release profile). The fork happens from the simulation thread of a process whose other thread only waits.",
            "deterministic simulation: seeded disk-corruption faults between runs, crash/abort/allocation observer on the real run in a forked child", "§5 C27"),
    "C41": (ENGINE_A, "exploration",
            "Differential pair of real runs: after a generated (mostly healthy) world history with several repositories the last run is executed twice from the same cache copy and the same simulated instant, once as is and once with a fault placed in one repository (unreachable over RRDP and/or rsync incl. garbage or truncated notification, corrupt local RRDP archive, bad/withheld objects, broken manifests or CRLs, stale or premature manifests). Every difference between the two served data sets must be payload that a CA published in that repository, or a descendant, has ever published (or, under the reject policy, a VRP overlapping their resources); the run with the fault must complete (one retry after a retryable failure allowed, as the server does).",
            "Attribution of payload to CAs comes from generator ground truth over all versions ever published; payload duplicated inside and outside the subtree is not attributable and excused. The first run of the pair is additionally checked against the reference model.",
            "deterministic simulation: differential fault injection (same seed, same cache, with/without one repository-level fault), subtree-attribution oracle", "§5 C41"),
}

ENGINE_C = "C (history): real SharedHistory driven through Server::process_once, queried through PayloadSource and the real HTTP dispatcher"
CHECKS.update({
    "C12": (ENGINE_C, "exploration",
            "Histories of 4-40 versions with items toggling; clients at every lag within retention; the change set merged on demand from retained change sets must equal the direct change set action for action and lead to the current data.",
            "ASPA items are not part of Engine C data sets (origins and router keys only); the direct change set comes from PayloadDelta::construct on the real snapshots.",
            "deterministic simulation: update histories vs lagging clients, merged-vs-direct oracle", "§5 C12"),
    "C13": (ENGINE_C, "exploration",
            "Histories longer than the retention window, start serial seeded anywhere in the 32-bit space; clients at every issued serial, evicted serials, current+1, +/-2^31, foreign session, random; each answer (PayloadSource::diff and /json-delta) is a refusal or an exact change set tagged with the current serial; the last min(history-size, changes) serials must be served; never-issued serials must be refused.",
            "Weakest reading of 'last history-size serials' (counts the current one); RTR wire encoding not exercised here.",
            "deterministic simulation: serial-space histories, exact-or-refused oracle against a version-vector model", "§5 C13"),
    "C14": (ENGINE_C, "exploration",
            "Run sequences mixing changing, non-changing and failing runs for history-size in {0,1,2,3,10,65535}; serial = start + number of changes; retained change sets <= max(history-size,1).",
            "Retention read through the verif_retained hook.",
            "deterministic simulation: run-outcome sequences vs counter model", "§5 C14"),
    "C33": (ENGINE_C, "exploration",
            "Histories interleaving successful runs with forced retryable/fatal failures; everything a client can observe (ready, session, serial, data, retained, ETag, Last-Modified, created, pending notify subscriber) is identical before and after a failed update cycle. One run in sixteen goes through Engine A instead: after a generated world history served through the real server update cycle, a final run meets a failing store (a stored trust-anchor, publication-point or status file that cannot be read or written, an unusable tmp directory, or an injected I/O error at the n-th file operation of the run, n seeded over the number of operations of the previous run: hook H13 in utils::fatal and the store); the run must fail and leave session, serial, data set and the /json document unchanged, or succeed with exactly the model's fault-free result.",
            "Forced failures happen at the start of ValidationReport::process (hook H5); mid-run failures are the store faults of Engine A (fatal) and, under C40, corrupt RRDP archives (retryable).",
            "deterministic simulation: forced run failures, before/after observation equality", "§5 C33"),
})

ENGINE_D = "D (conc): real code built with shuttle sync primitives, one seeded schedule (random or PCT) per run"
CHECKS.update({
    "C15": (ENGINE_D, "exploration",
            "Shuttle schedules of one updater (two real update cycles) against readers issuing full(), diff(), /json-delta and /json with bodies consumed chunk by chunk; every response pairs its serial with exactly that serial's data; not ready before the first run.",
            "Sequentially consistent interleavings at lock operations and hook points only; RTR wire path not included.",
            "deterministic simulation: seeded schedule exploration (shuttle random + PCT)", "§5 C15"),
    "C16": (ENGINE_D, "exploration",
            "Shuttle schedules of an updater installing new data against clients sending conditional requests with the previous version's validators (ETag, date, both), including the instant between installing data and marking the update done and up to three further versions within the same simulated second; clients learn validators from whatever version is served and revalidate; a 304 must carry the ETag of the version the validators belong to and, whatever the validators look like, the data set the client holds must be one that was served at some point of the request (each version has a distinct number of items; the updater publishes which version it has started and finished installing); history-size is drawn from {0, 1, 2, 10}. Sequential histories are covered as a by-product of Engine C.",
            "Scheduling points: history lock operations.",
            "deterministic simulation: seeded schedule exploration (shuttle random + PCT)", "§5 C16"),
    "C17": (ENGINE_D, "exploration",
            "Shuttle schedules of a notify long-poll racing a data-changing update cycle; the request must complete with the new serial, a lost notification is detected as all tasks blocked (bounded liveness: quiescence).",
            "Needs hook H12 (scheduling point between version check and subscription); tokio broadcast internals are not scheduler-visible.",
            "deterministic simulation: seeded schedule exploration with deadlock detection", "§5 C17"),
    "C36": (ENGINE_D, "exploration",
            "Shuttle schedules of 2-4 tasks registering overlapping and new client addresses with scheduling points inside the ArcSwap-based registry (hook H10); list sorted and unique, per-address and global counts exact, zero after close.",
            "Connection accounting through RtrClientMetrics as rtr.rs does; real sockets not involved.",
            "deterministic simulation: seeded schedule exploration (shuttle random + PCT)", "§5 C36"),
    "C37": (ENGINE_D, "exploration",
            "Shuttle schedules of 2-3 tasks (standing for validation workers) calling the real collector Run::repository for CAs in the same and different rsync modules / RRDP repositories, the same module spelled with differing host-name case; fetch count per module/repository <= 1 (fake rsync log, simulated HTTP log) and data readable when repository() returns.",
            "Fake rsync child process and simulated HTTP are atomic steps for the scheduler.",
            "deterministic simulation: seeded schedule exploration (shuttle random + PCT)", "§5 C37"),
})

ENGINE_B = "B (rrdp): real Collector/rrdp::Run::load_repository and archive against a simulated RRDP server history"
ENGINE_E = "E (archive): real utils::archive::Archive on tmpfs against a BTreeMap reference model"
CHECKS.update({
    "C25": (ENGINE_B, "exploration",
            "Generated server histories (publish, session rotation, serial jumps, delta pruning, lagging mirror views) x 23 peer fault kinds at notification, snapshot and delta exchanges x reachable local states; whenever repository() hands out an RRDP repository the archive must record the announced version (304: the last synced one) and equal that version's server snapshot exactly.",
            "Oracle per DESIGN appendix B; rsync disabled so that not-updated means no data handed out; HTTP transport simulated.",
            "deterministic simulation: server history + peer fault injection, snapshot-equality oracle", "§5 C25"),
    "C23": ("A (world) in crash mode: kill points in the store, status file, TA store, cleanup and RRDP archive writes", "fault_enumeration",
            "In generated worlds the third validation run is re-executed once per kill point from the same pre-run cache (store create/truncate/header/persist/reject/status/TA/cleanup steps, between the length and the payload of every URI in a stored point header, and RRDP archive writes; all in thorough, a seeded sample in quick); the directory copy at the kill point is the crash image. Per distinct image: every stored point is absent, header-only or byte-for-byte its previous or new complete version; offline run succeeds; online run (one retry after a retryable failure allowed) gives the uninterrupted run's data set (for kills during cleanup: item-wise between this run's and the following run's result); store status readable.",
            "Crash = process kill; buffered temp-file writes coincide; tearing inside one write call not modelled; worlds sampled, kill points of each explored run enumerated. Commands as subprocesses are covered under C32's engine only for the retry logic.",
            "deterministic simulation: kill-point enumeration with crash images over the real Engine/Store", "§5 C23"),
    "C24": ("B (rrdp) in crash mode: kill points in archive writes, truncation and snapshot replacement", "fault_enumeration",
            "For a client synced to a generated server history, one snapshot or (multi-)delta update is re-executed once per kill point (every archive write/truncate and the remove/rename steps; all points in thorough, a seeded sample in quick); the cache directory copied at the kill point is the crash image; from each distinct image the client restarts and the server history continues, including 304 and mirror-lag views. Oracle of Engine B at every later update.",
            "Crash = process kill (page cache survives); tearing inside one write call and write reordering (power loss) are out of scope; histories are sampled, kill points of each explored update are enumerated.",
            "deterministic simulation: kill-point enumeration with crash images, then continued server history", "§5 C24"),
    "C26": (ENGINE_E, "exploration",
            "Model-based operation sequences (publish/update/delete/fetch/fetch_if/reopen read-only or writable) over colliding and distinct names with sizes around page, header and free-space boundaries; results equal a BTreeMap model, metadata checks enforced, verify() succeeds after every operation.",
            "Restart = drop and reopen; mid-operation crashes belong to C24.",
            "deterministic simulation: stateful component vs executable reference model with reopen as generated operation", "§5 C26"),
})

CHECKS.update({
    "C32": ("F (cmd): the real vrps / validate / update / server commands as subprocesses with scripted run outcomes", "fault_enumeration",
            "All sequences over {ok, retryable failure, fatal failure} up to length 4 (server: 5 in thorough) for vrps, validate, update and server, plus for vrps and server the sequences containing a retryable failure with a failing sanitize step (hook H14), each executed by the real Operation::run in a child process with the run outcome forced at the start of ValidationReport::process; the number of started runs, the exit status and a run-count watchdog (exit 97) decide. Exhaustive to the stated bound.",
            "The child is the harness binary performing exactly what src/main.rs does; no TALs so unforced runs succeed immediately; the server is observed through its run log and exit status only.",
            "deterministic simulation: exhaustive enumeration of run-outcome (fault) sequences to a bound against the real command loop", "§5 C32"),
})

CHECKS.update({
    "C19": ("G (rtrnet): the real rtr_listener on loopback sockets in a current-thread tokio runtime", "exploration",
            "Sequences of 3-10 RTR client connections with a seeded subset failing per-connection setup (injected failure of the keepalive socket option), keepalive on/off, per-client metrics on/off; every connection whose setup was not failed must receive a Cache Response to its Reset Query within a generous wall-clock bound.",
            "The one engine with real (loopback) sockets because rtr_listener is hard-wired to tokio TCP: outcome-deterministic, timing is not; the bound only elapses on a violation.",
            "simulation with injected system-call failures on loopback sockets, bounded liveness", "§5 C19"),
})

NOT_APPLICABLE = {
    "C11": "pure function of two data sets: no schedule, clock, fault, crash point or peer can change its outcome (DESIGN §5)",
    "C18": "serialiser: pure function of (change set, session, serials); no simulated dimension influences it",
    "C20": "pure function of (route, data set)",
    "C21": "pure function of (data set, selection, format)",
    "C28": "pure encode/decode round trip of a value; no simulated dimension influences it",
    "C30": "pure function of URIs",
    "C35": "pure function of the configuration",
}

PENDING = {}

ALL = [f"C{i:02d}" for i in range(1, 42)]


def main():
    hooks_commits = subprocess.run(
        ["git", "-C", "/repo", "log", "--format=%h %s", "--grep", "verif hook"],
        stdout=subprocess.PIPE, text=True).stdout.strip().splitlines()
    checks = []
    for prop in ALL:
        if prop not in CHECKS:
            continue
        engine, cat, text, note, tech, ref = CHECKS[prop]
        checks.append({
            "property_id": prop,
            "quick_cmd": f"./check {prop} --tier quick",
            "thorough_cmd": f"./check {prop} --tier thorough",
            "evidence_file": f"evidence/{prop}.json",
            "replay_cmd_template": "./check replay {path}",
            "engine": engine,
            "level_claimed": {"category": cat, "text": text,
                              "design_ref": f"DESIGN.md {ref}"},
            "level_note": note,
            "technique": tech,
        })
    na = []
    for prop in ALL:
        if prop in CHECKS:
            continue
        if prop in NOT_APPLICABLE:
            na.append({"property_id": prop, "reason": NOT_APPLICABLE[prop]})
        else:
            na.append({"property_id": prop, "reason": PENDING.get(
                prop, "check not built yet in this round; planned per DESIGN.md §5")})
    engines = {}
    for prop, val in CHECKS.items():
        engines.setdefault(val[0], []).append(prop)
    manifest = {
        "version": 1,
        "setup_cmd": "./check build --shuttle",
        "hooks": {
            "guard": "--cfg routinator_verif (plus --cfg routinator_verif_shuttle for the scheduler-controlled build)",
            "enable": "RUSTFLAGS='--cfg routinator_verif' cargo build of /verif/harness, which depends on a generated shadow manifest (/verif/shadow/routinator/Cargo.toml, lib path /repo/src/lib.rs) so that /repo/Cargo.toml and Cargo.lock stay untouched",
            "baseline_off_cmd": "cd /repo && cargo test --workspace --no-fail-fast --offline",
            "source_commits": [c.split()[0] for c in hooks_commits],
            "add_only": True,
        },
        "engines": [
            {"name": name, "path": "harness/src", "serves_properties": sorted(props),
             "kind_free_text": "deterministic simulation with fault injection"}
            for name, props in engines.items()
        ],
        "checks": checks,
        "not_applicable": na,
        "notes": "One seed (VERIF_SEED, default 20260921) decides every world, fault, clock jump and order. Exit 2 = harness/build error, never a verdict. Known findings in known_findings.json.",
    }
    json.dump(manifest, open(os.path.join(ROOT, "MANIFEST.json"), "w"), indent=1)


if __name__ == "__main__":
    main()

#!/usr/bin/env python3
"""Regenerates the seeded-changes table in DESIGN.md (between the markers)."""
import glob, json, os, re
ROOT = os.path.dirname(os.path.dirname(os.path.abspath(__file__)))
rows = []
confirmed = 0
for d in sorted(glob.glob(os.path.join(ROOT, "seeded", "*"))):
    name = os.path.basename(d)
    m = json.load(open(os.path.join(d, "meta.json")))
    v = m.get("verified_by_me", {})
    caught = ", ".join(v.get("caught_by", []))
    note = v.get("note", "").replace("|", "/")
    ver = ""
    vp = os.path.join(d, "verify.json")
    if os.path.exists(vp):
        r = json.load(open(vp))
        if r.get("confirmed"):
            ver = "yes"; confirmed += 1
        elif r.get("suite_31_passed"):
            ver = "suite yes, demo: see verify.json"
        else:
            ver = "see verify.json"
    rows.append(f"| `{name}` | {', '.join(m.get('files', []))} | {caught} | {ver} | {note} |")
table = ("| Seeded change | File(s) | Caught by | Re-confirmed (31 tests pass, demo fails with / passes without) | Note |\n"
         "|---|---|---|---|---|\n" + "\n".join(rows))
p = os.path.join(ROOT, "DESIGN.md")
s = open(p).read()
s = re.sub(r"<!-- seeded-table-begin -->.*?<!-- seeded-table-end -->",
           "<!-- seeded-table-begin -->\n" + table + "\n<!-- seeded-table-end -->",
           s, flags=re.S)
open(p, "w").write(s)
print(len(rows), "rows,", confirmed, "re-confirmed")

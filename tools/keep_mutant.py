#!/usr/bin/env python3
"""keep_mutant.py <id> <name> <caught-by-checks,comma> <note>: archive /tmp/mut/<id>/MUTANT under /verif/seeded/<name>/"""
import json, os, shutil, sys
mid, name, caught, note = sys.argv[1:5]
src = f"/tmp/mut/{mid}/MUTANT"
dst = f"/verif/seeded/{name}"
os.makedirs(dst, exist_ok=True)
shutil.copy(f"{src}/patch.diff", f"{dst}/patch.diff")
if os.path.isdir(f"{src}/demo"):
    shutil.copytree(f"{src}/demo", f"{dst}/demo", dirs_exist_ok=True,
                    ignore=shutil.ignore_patterns("target", "*.lock"))
meta = json.load(open(f"{src}/meta.json"))
meta["verified_by_me"] = {
    "applies_to_repo_head": True,
    "caught_by": caught.split(","),
    "how": "git -C /repo apply patch.diff; ./check <id> (quick tier) -> exit 1 with VIOLATION; git -C /repo checkout -- .",
    "note": note,
}
json.dump(meta, open(f"{dst}/meta.json", "w"), indent=1)
print("kept", dst)

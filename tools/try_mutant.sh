#!/bin/bash
# usage: try_mutant.sh <patch.diff> <prop> [<prop> ...]
# Applies the patch to /repo, runs the quick checks, undoes the patch.
patch="$1"; shift
cd /repo || exit 2
if ! git diff --quiet; then echo "repo not clean"; exit 2; fi
if ! git apply "$patch" 2>/tmp/apply.err; then
  if ! patch -p1 --no-backup-if-mismatch < "$patch" >/tmp/apply.err 2>&1; then
    echo "PATCH DOES NOT APPLY"; cat /tmp/apply.err; git checkout -- .; exit 2
  fi
fi
cd /verif
for p in "$@"; do
  out=$(VERIF_TIER=${VERIF_TIER:-quick} ./check "$p" 2>&1); rc=$?
  echo "== $p exit=$rc"; echo "$out" | tail -4 | cut -c1-400
done
git -C /repo checkout -- .
git -C /repo clean -fdq src tests 2>/dev/null

#!/bin/bash
# usage: try_mutant_vc.sh <patch> <property>...
# Like try_mutant.sh, but on a private copy (/tmp/vc/repo = worktree of /repo
# at HEAD, /tmp/vc/verif = copy of /verif) so that long runs using /repo are
# not disturbed.
patch=$1; shift
git -C /tmp/vc/repo checkout -q --detach $(git -C /repo rev-parse HEAD) || exit 2
git -C /tmp/vc/repo checkout -- . ; git -C /tmp/vc/repo clean -fdq src tests 2>/dev/null
rsync -a --exclude replays --exclude 'harness/target*' --exclude shadow --exclude evidence /verif/ /tmp/vc/verif/
cd /tmp/vc/repo && git apply "$patch" || { echo "patch does not apply"; exit 2; }
cd /tmp/vc/verif
for p in "$@"; do
  VERIF_REPO=/tmp/vc/repo ./check $p 2>&1 | tail -4 | cut -c1-400
  echo "== $p exit=${PIPESTATUS[0]}"
done
git -C /tmp/vc/repo checkout -- . ; git -C /tmp/vc/repo clean -fdq src tests 2>/dev/null

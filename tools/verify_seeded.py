#!/usr/bin/env python3
"""Independent confirmation of the seeded changes.

For every directory under /verif/seeded (or the names given): create a scratch
worktree of /repo at the path the change was written in (/tmp/mut/<id>),
apply the patch, run the project's own test suite (must report 31 passed),
run the demonstration (must fail), revert the patch, run the demonstration
again (must pass), and remove the worktree. Results go to
seeded/<name>/verify.json. Nothing is ever committed to /repo.
"""
import glob
import json
import os
import re
import shutil
import subprocess
import sys

ROOT = os.path.dirname(os.path.dirname(os.path.abspath(__file__)))
TARGET = "/tmp/mutv-target"


def sh(cmd, cwd, timeout=1800, shared_target=True):
    env = dict(os.environ)
    if shared_target:
        env["CARGO_TARGET_DIR"] = TARGET
    env["CARGO_NET_OFFLINE"] = "true"
    try:
        proc = subprocess.run(cmd, cwd=cwd, shell=isinstance(cmd, str),
                              stdout=subprocess.PIPE, stderr=subprocess.STDOUT,
                              text=True, timeout=timeout, env=env)
        return proc.returncode, proc.stdout
    except subprocess.TimeoutExpired as err:
        return 124, (err.stdout or "") + "\nTIMEOUT"


def demo_cmd(wt):
    demo = os.path.join(wt, "MUTANT", "demo")
    for name in ("run.sh", "run_demo.sh"):
        if os.environ.get("VERIFY_NO_SCRIPT"):
            break
        if os.path.exists(os.path.join(demo, name)):
            return f"sh MUTANT/demo/{name}", None
    tests = [f for f in os.listdir(demo) if f.endswith(".rs")]
    if len(tests) == 1:
        name = tests[0][:-3]
        return (f"mkdir -p tests && cp -r MUTANT/demo/* tests/ && "
                f"cargo test --offline --test {name}; rc=$?; "
                f"rm -rf tests; exit $rc"), None
    return None, "no runnable demonstration found"


def verify(name):
    src = os.path.join(ROOT, "seeded", name)
    ident = name.split("-")[0]
    wt = f"/tmp/mut/{ident}"
    res = {"name": name, "worktree": wt}
    if os.path.exists(wt):
        res["error"] = f"{wt} exists"
        return res
    sh(["git", "-C", "/repo", "worktree", "add", "-q", "--detach", wt, "HEAD"],
       "/repo")
    try:
        shutil.copytree(src, os.path.join(wt, "MUTANT"))
        rc, out = sh(["git", "apply", "MUTANT/patch.diff"], wt)
        res["applies"] = rc == 0
        if rc != 0:
            res["error"] = out[-500:]
            return res
        rc, out = sh("cargo test --offline 2>&1 | grep -E '^test result|error(\\[|:)' | head -5", wt)
        res["suite_with_change"] = out.strip().splitlines()[:3]
        res["suite_31_passed"] = bool(re.search(r"31 passed; 0 failed", out))
        cmd, err = demo_cmd(wt)
        if cmd is None:
            res["demo"] = err
            return res
        res["demo_cmd"] = cmd
        rc_with, out_with = sh(cmd, wt)
        shared = True
        if rc_with == 127 or "not found" in out_with[-300:]:
            # The script expects the default target directory.
            shared = False
            rc_with, out_with = sh(cmd, wt, shared_target=False)
        res["demo_with_change_exit"] = rc_with
        res["demo_with_change_tail"] = out_with.strip().splitlines()[-4:]
        sh(["git", "checkout", "--", "src"], wt)
        sh(["git", "apply", "-R", "--check", "MUTANT/patch.diff"], wt)
        rc, _ = sh(["git", "diff", "--quiet", "--", "src"], wt)
        res["reverted_clean"] = rc == 0
        rc_without, out_without = sh(cmd, wt, shared_target=shared)
        res["demo_without_change_exit"] = rc_without
        res["demo_without_change_tail"] = out_without.strip().splitlines()[-4:]
        # Some scripts always exit 0: also look at the test result lines.
        failed_with = rc_with != 0 or "test result: FAILED" in out_with
        passed_without = (
            rc_without == 0 and "test result: FAILED" not in out_without
        )
        res["confirmed"] = bool(
            res["suite_31_passed"] and failed_with and passed_without
        )
    finally:
        sh(["git", "-C", "/repo", "worktree", "remove", "--force", wt], "/repo")
        sh(["git", "-C", "/repo", "worktree", "prune"], "/repo")
    return res


def main():
    names = sys.argv[1:] or sorted(
        os.path.basename(d) for d in glob.glob(os.path.join(ROOT, "seeded", "*"))
    )
    for name in names:
        out = os.path.join(ROOT, "seeded", name, "verify.json")
        if os.path.exists(out) and not sys.argv[1:]:
            continue
        res = verify(name)
        json.dump(res, open(out, "w"), indent=1)
        print(name, "confirmed" if res.get("confirmed") else "NOT CONFIRMED",
              res.get("error", ""), flush=True)


if __name__ == "__main__":
    main()
